#!/bin/bash
# usage: check.sh <property> <quick|thorough>
# Rebuilds the model checker against /repo's current working tree (hooks on) and runs one property check.
set -u
cd "$(dirname "$0")"
export GOFLAGS=-mod=mod GOPROXY=off GOSUMDB=off GOTOOLCHAIN=local GOGC=200
export VERIF_DIR="${VERIF_DIR_OVERRIDE:-$(pwd)}"
mkdir -p .build
cp -f /repo/go.sum ./go.sum 2>/dev/null || true
if ! go build -tags verif -o .build/mc ./cmd/mc 2> .build/build.err; then
  echo "BUILD FAILED (repository does not compile with -tags verif):"
  head -50 .build/build.err
  exit 2
fi
exec .build/mc check "$1" "${2:-quick}"
