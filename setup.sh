#!/bin/bash
# Builds the model checker once and warms the Go build cache (offline).
set -eu
cd "$(dirname "$0")"
export GOFLAGS=-mod=mod GOPROXY=off GOSUMDB=off GOTOOLCHAIN=local
mkdir -p .build evidence out
cp -f /repo/go.sum ./go.sum
go build -tags verif -o .build/mc ./cmd/mc
echo "setup ok"
