#!/usr/bin/env python3
"""Applies each deliberate property-breaking change of mutants/mutants.json via `go build -overlay`
(never touching /repo) and runs the named property checks against it. Prints DETECTED / MISSED.
usage: mutate.py [name-substring] [--tier quick|thorough]"""
import json, os, subprocess, sys, shutil, tempfile

ENV = dict(os.environ, GOFLAGS="-mod=mod", GOPROXY="off", GOSUMDB="off", GOTOOLCHAIN="local")
ROOT = os.path.dirname(os.path.dirname(os.path.abspath(__file__)))
muts = json.load(open(os.path.join(ROOT, "mutants/mutants.json")))
flt = [a for a in sys.argv[1:] if not a.startswith("--")]
tier = "quick"
if "--thorough" in sys.argv: tier = "thorough"
# MUT_SHARD=i/n runs every n-th mutant starting at i (parallel shards)
if os.environ.get("MUT_SHARD"):
    i, n = map(int, os.environ["MUT_SHARD"].split("/"))
    muts = muts[i::n]
results = []
for m in muts:
    if flt and not any(f in m["name"] for f in flt):
        continue
    scratch = tempfile.mkdtemp(prefix="mut-", dir="/root/scratch")
    try:
        overlay = {"Replace": {}}
        ok = True
        texts = {}
        for i, ch in enumerate(m["changes"]):
            src = os.path.join("/repo", ch["file"])
            text = texts.get(src) or open(src).read()
            if text.count(ch["old"]) != 1:
                print(f"{m['name']}: pattern occurs {text.count(ch['old'])} times in {ch['file']}"); ok = False; break
            texts[src] = text.replace(ch["old"], ch["new"])
        for i, (src, text) in enumerate(texts.items()):
            dst = os.path.join(scratch, f"f{i}.go")
            open(dst, "w").write(text)
            overlay["Replace"][src] = dst
        if not ok:
            results.append((m["name"], "BADPATTERN")); continue
        ov = os.path.join(scratch, "overlay.json")
        json.dump(overlay, open(ov, "w"))
        binp = os.path.join(scratch, "mc")
        r = subprocess.run(["go", "build", "-tags", "verif", "-overlay", ov, "-o", binp, "./cmd/mc"], cwd=ROOT, env=ENV, capture_output=True, text=True)
        if r.returncode != 0:
            print(m["name"], "BUILD FAILED", r.stderr[-2000:]); results.append((m["name"], "BUILDFAIL")); continue
        shutil.copy(os.path.join(ROOT, "known_findings.json"), scratch)
        for prop in m["props"]:
            env = dict(ENV, VERIF_DIR=scratch, VERIF_BUDGET_S=os.environ.get("VERIF_BUDGET_S", "150"))
            r = subprocess.run([binp, "check", prop, tier], cwd=ROOT, env=env, capture_output=True, text=True)
            viol = [l for l in r.stdout.splitlines() if l.startswith("VIOLATION")]
            mons = [l.strip() for l in r.stdout.splitlines() if l.strip().startswith("monitor=")]
            status = "DETECTED" if r.returncode == 1 and viol else f"MISSED(exit={r.returncode})"
            print(f"{m['name']:45s} {prop} {status} {mons[:2]}")
            if r.returncode not in (0, 1):
                print(r.stdout[-1500:], r.stderr[-1500:])
            results.append((m["name"] + "/" + prop, status))
    finally:
        shutil.rmtree(scratch, ignore_errors=True)
missed = [r for r in results if not r[1].startswith("DETECTED")]
print(f"\n{len(results)-len(missed)}/{len(results)} detected; missed: {missed}")
