#!/usr/bin/env python3
"""Generates MANIFEST.json from the table below (single source of truth for claimed checks)."""
import json, subprocess

def hooks_commits():
    try:
        out = subprocess.check_output(["git", "-C", "/repo", "log", "--format=%H %s"], text=True)
        return [l.split()[0] for l in out.splitlines() if "verif hooks" in l]
    except Exception:
        return []

MC = "explicit-state model checking of the real controller code (BFS over deliver/work/env/clock/fault/crash transitions, canonical-state dedup, replay-validated)"
JOBW = "Trusts the simulated API server/kubelet/informer model (DESIGN.md 2.1, 5); bounded workloads (<= 3 indexes, <= 3 attempts), deviation budgets and horizons per scenario; violations that need a stale cache, an injected fault plus a kill, or a foreign pod are recorded known findings (known_findings.json) and are reported as KNOWN-FINDING, everything else is a VIOLATION."
CLAIMED = {
 "C08": dict(level="model_checking", tech=MC,
   text="Exhaustive BFS over all interleavings of informer deliveries, reconciler syncs, kubelet outcomes (run/succeed/fail/vanish) and clock advances for Jobs with 1-2 indexes (none/withCount/withKeys/withMatrix), both strategies, maxAttempts 1-3, retryDelay 0/10s, cache lag <= 1 (quick) / 2 (thorough); every Pod create issued by the real jobcontroller is judged against the authoritative Pods, monitor memory of all pods ever created, and the simulated clock; quiescent states are checked for stuck Jobs.",
   note=JOBW, ref="4 C08"),
 "C09": dict(level="fault_enumeration", tech=MC + "; every API call of every reconcile pass enumerated as crash point and as failing call (error / conflict / applied-timeout)",
   text="Inside the BFS every API call of every sync is a branching point: not-applied error, conflict, applied-but-timed-out, or process crash at that call (all in-memory state discarded, controllers rebuilt from the API). After recovery every status write and every quiescent state is checked: no attempt created twice, no task forgotten or recorded lost while its Pod exists, every controlled Pod listed, foreign Pods never adopted and leading to AdmissionError.",
   note=JOBW, ref="4 C09"),
 "C10": dict(level="model_checking", tech=MC + "; ground-truth oracle from the simulated kubelet's outcomes",
   text="The write that makes a Job finished is compared with the ground truth of what the simulated kubelet did to each Pod (succeeded/failed/OOM/vanished/pending-timeout) for all outcome orders, shapes, strategies and attempts; quiescent states are checked for the converse (decided strategy => that result, leftovers stopped).",
   note=JOBW, ref="4 C10"),
 "C11": dict(level="model_checking", tech=MC + "; pairwise monitor on every Job version written",
   text="Every Job object version written to the simulated API along every explored path (kubelet flapping, pod disappearance, kill, delete, faults) is compared with its predecessor (startTime, finished, result, finish time, createdTasks, per-task timestamps) and checked for internal coherence (one condition, state, phase, counters).",
   note=JOBW, ref="4 C11"),
 "C12": dict(level="model_checking", tech=MC + "; clock advanced to every deadline, armed-timer liveness at quiescence",
   text="Every Pod delete (graceful or force) issued by the real controller is judged at the simulated clock against kill timestamp, effective pending timeout, job deletion, decided strategy and the force-delete gate; the clock is advanced to every deadline and quiescent states after it must have no live task and a Killed Job (kubelet prompt, late, or dead).",
   note=JOBW, ref="4 C12"),
 "C13": dict(level="model_checking", tech=MC + "; ordering monitor at Job removal, TTL clock monitor",
   text="At the instant the simulated API removes a Job no listed task may still exist; controller-issued Job deletes are judged against finish time + effective TTL at the simulated clock; quiescent states must not hold a deleting Job without tasks or an expired finished Job. Explored for deletion at every phase, kubelet prompt/dead, TTL from job/config/zero.",
   note=JOBW, ref="4 C13"),
}
PENDING_REASON = "check not built yet in this session (planned, see DESIGN.md section 4)"

props = [json.loads(l) for l in open("/verif/properties.jsonl")]
checks, na = [], []
for p in props:
    pid = p["id"]
    if pid in CLAIMED:
        c = CLAIMED[pid]
        checks.append({
            "property_id": pid,
            "quick_cmd": f"./check.sh {pid} quick",
            "thorough_cmd": f"./check.sh {pid} thorough",
            "evidence_file": f"/verif/evidence/{pid}.json",
            "replay_cmd_template": ".build/mc replay {path}",
            "engine": "mc",
            "level_claimed": {"category": c["level"], "text": c["text"], "design_ref": "DESIGN.md section " + c["ref"]},
            "level_note": c["note"],
            "technique": c["tech"],
        })
    else:
        na.append({"property_id": pid, "reason": PENDING_REASON})

manifest = {
    "version": 1,
    "setup_cmd": "./setup.sh",
    "hooks": {
        "guard": "verif",
        "enable": "go build -tags verif (new files zz_verif.go only; see DESIGN.md section 8)",
        "baseline_off_cmd": "cd /repo && GOFLAGS=-mod=mod GOPROXY=off GOSUMDB=off go test -json -vet=off -count=1 -timeout 25m ./...",
        "source_commits": hooks_commits(),
        "add_only": True,
    },
    "engines": [{"name": "mc", "path": "/verif/cmd/mc", "serves_properties": sorted(CLAIMED),
                 "kind_free_text": "hand-written explicit-state model checker in Go driving the real furiko controllers against a simulated API server, informers, work queues, kubelet and clock; plus exhaustive input enumerations against reference models"}],
    "checks": checks,
    "not_applicable": na,
    "notes": "All checks rebuild .build/mc from /repo's working tree with -tags verif. known_findings.json lists recorded genuine defects; see DESIGN.md.",
}
json.dump(manifest, open("/verif/MANIFEST.json", "w"), indent=1)
print("claimed:", sorted(CLAIMED), "not claimed:", len(na))
