#!/usr/bin/env python3
"""Generates MANIFEST.json from the table below (single source of truth for claimed checks)."""
import json, subprocess

def hooks_commits():
    try:
        out = subprocess.check_output(["git", "-C", "/repo", "log", "--format=%H %s"], text=True)
        return [l.split()[0] for l in out.splitlines() if "verif hooks" in l]
    except Exception:
        return []

MC = "explicit-state model checking of the real controller code (BFS over deliver/work/env/clock/fault/crash transitions, canonical-state dedup, replay-validated)"
JOBW = "Trusts the simulated API server/kubelet/informer model (DESIGN.md 2.1, 5); bounded workloads (<= 3 indexes, <= 3 attempts), deviation budgets and horizons per scenario; violations that need a stale cache, an injected fault plus a kill, or a foreign pod are recorded known findings (known_findings.json) and are reported as KNOWN-FINDING, everything else is a VIOLATION."
CLAIMED = {
 "C08": dict(level="model_checking", tech=MC,
   text="Exhaustive BFS over all interleavings of informer deliveries, reconciler syncs, kubelet outcomes (run/succeed/fail/vanish) and clock advances for Jobs with 1-2 indexes (none/withCount/withKeys/withMatrix), both strategies, maxAttempts 1-3, retryDelay 0/10s, cache lag <= 1 (quick) / 2 (thorough); every Pod create issued by the real jobcontroller is judged against the authoritative Pods, monitor memory of all pods ever created, and the simulated clock; quiescent states are checked for stuck Jobs.",
   note=JOBW, ref="4 C08"),
 "C09": dict(level="fault_enumeration", tech=MC + "; every API call of every reconcile pass enumerated as crash point and as failing call (error / conflict / applied-timeout)",
   text="Inside the BFS every API call of every sync is a branching point: not-applied error, conflict, applied-but-timed-out, or process crash at that call (all in-memory state discarded, controllers rebuilt from the API). After recovery every status write and every quiescent state is checked: no attempt created twice, no task forgotten or recorded lost while its Pod exists, every controlled Pod listed, foreign Pods never adopted and leading to AdmissionError.",
   note=JOBW, ref="4 C09"),
 "C10": dict(level="model_checking", tech=MC + "; ground-truth oracle from the simulated kubelet's outcomes",
   text="The write that makes a Job finished is compared with the ground truth of what the simulated kubelet did to each Pod (succeeded/failed/OOM/vanished/pending-timeout) for all outcome orders, shapes, strategies and attempts; quiescent states are checked for the converse (decided strategy => that result, leftovers stopped).",
   note=JOBW, ref="4 C10"),
 "C11": dict(level="model_checking", tech=MC + "; pairwise monitor on every Job version written",
   text="Every Job object version written to the simulated API along every explored path (kubelet flapping, pod disappearance, kill, delete, faults) is compared with its predecessor (startTime, finished, result, finish time, createdTasks, per-task timestamps) and checked for internal coherence (one condition, state, phase, counters).",
   note=JOBW, ref="4 C11"),
 "C12": dict(level="model_checking", tech=MC + "; clock advanced to every deadline, armed-timer liveness at quiescence",
   text="Every Pod delete (graceful or force) issued by the real controller is judged at the simulated clock against kill timestamp, effective pending timeout, job deletion, decided strategy and the force-delete gate; the clock is advanced to every deadline and quiescent states after it must have no live task and a Killed Job (kubelet prompt, late, or dead).",
   note=JOBW, ref="4 C12"),
 "C13": dict(level="model_checking", tech=MC + "; ordering monitor at Job removal, TTL clock monitor",
   text="At the instant the simulated API removes a Job no listed task may still exist; controller-issued Job deletes are judged against finish time + effective TTL at the simulated clock; quiescent states must not hold a deleting Job without tasks or an expired finished Job. Explored for deletion at every phase, kubelet prompt/dead, TTL from job/config/zero.",
   note=JOBW, ref="4 C13"),
}
QW = "Trusts the simulated API server/informer/work-queue model (DESIGN.md 2.1, 5); the job controller is abstracted by an environment transition that writes the status computed by the real jobcontroller.UpdateJobStatusFromTaskRefs; <= 3-4 Jobs on one JobConfig; deviation budgets per scenario; violations that need an applied-but-failed start write are a recorded known finding (F8)."
CLAIMED.update({
 "C01": dict(level="model_checking", tech="exhaustive enumeration of all tick-timing sequences (6 tick lengths, depth 5/6-7) of the real CronWorker+Schedule+heap under a fake clock, compared tick by tick with a brute-force per-second reference stream and a heap-consistency oracle",
   text="For 16 populations of JobConfigs (second/minute granular, multi-expression, hashed, point-in-time, never-matching, 5 timezones incl. config default, notBefore/notAfter on and off matches, 8 JobConfigs colliding in one tick, one name in two namespaces, caps 1/3/5, start instants on/off a match) every sequence of tick delays from {0.25s,1s,1.5s,5s,61s,400s} up to the depth bound is executed on the real CronWorker.Work; every tick's requests must equal the reference (independent field matcher, cursor, cap) and the heap dump must be ordered, index-consistent and hold each JobConfig at its reference next-due time.",
   note="Reference matcher is independent for numeric/step/list/range fields; hashed (H) fields and next-due times beyond 10 minutes use the cron library as trusted matcher. Finite alphabet of expressions, timezones and tick lengths; no DST transition instants.", ref="4 C01"),
 "C03": dict(level="model_checking", tech=MC + " (replay mode; CronWorker.Work is the tick transition)",
   text="BFS over every pair (quick) / triple (thorough) of JobConfig life-cycle events (create, setexpr, disable, enable, add notBefore, drop schedule, delete, recreate, non-schedule edit) submitted through the real mutating webhook, interleaved in every order with informer deliveries (lag 0/1) and ticks of 1s/1.5s/5s; every tick's requests are judged against the schedule implied by the JobConfig version delivered to the controller, and an unchanged bystander JobConfig must keep its exact stream.",
   note="Times between a delivered change and the tick that processes it may be skipped (re-base at the tick) - tolerated by the oracle. Second-granular expressions so that overdue firings coincide with changes inside a 12s horizon.", ref="4 C03"),
 "C04": dict(level="exploration", tech="exhaustive enumeration of the product of persisted lower-bound terms x downtime threshold x cap x expression x restart instant on a freshly constructed real CronWorker (Init+Work+2 ticks) against the reference lower bound",
   text="6480 (quick) / ~40000 (thorough) combinations of status.lastScheduled, spec.schedule.lastUpdated, notBefore, maxDowntimeThresholdSeconds, maxMissedSchedules, expression and restart instant; after Init the first three ticks must request exactly the first K due times after max(lastScheduled, start-downtime, lastUpdated, notBefore), nothing at or before lastScheduled, and nothing back-dated for a never-scheduled JobConfig.",
   note="Crash/restart inside a running system (lastScheduled maintained by the jobconfig controller) is covered by C15 (monotone lastScheduled) and the C20 end-to-end world, not here.", ref="4 C04"),
 "C05": dict(level="model_checking", tech=MC + "; real activejobstore counter in the loop, restored by its public API in snapshots",
   text="BFS over Job creation (Allow/Forbid/Enqueue, startAfter), informer deliveries (lag <= 1, thorough 2), per-JobConfig and independent reconciler syncs, job-controller status writes, finish, delete/purge, restart (store Recover) and failing/conflicting/applied-timeout start and reject writes; every write that sets status.startTime is judged against the authoritative number of started, unfinished Jobs; the counter must be >= 0 always and equal the truth at rest.",
   note=QW, ref="4 C05"),
 "C06": dict(level="model_checking", tech=MC, text="Same search as C05 with the policy monitors: only Forbid Jobs are refused and only at the limit, Enqueue Jobs start in creation order among queued+due+visible Jobs, Allow Jobs and admissible Enqueue/Forbid Jobs never remain queued at rest.", note=QW, ref="4 C06"),
 "C07": dict(level="model_checking", tech=MC + "; clock advanced to every startAfter, armed-timer oracle", text="Same search as C05 with owned and independent Jobs carrying startAfter in {past, now, +5s, +90s}: no start write before startAfter at the simulated clock; a Job blocked only by time has a deferred sync armed no later than startAfter+1s; at rest after the time passed nothing due and admissible is queued.", note=QW, ref="4 C07"),
})
ENUM = "exhaustive enumeration of a stated finite input alphabet through the real functions, compared with an independent reference model"
CLAIMED.update({
 "C14": dict(level="exploration", tech=ENUM,
   text="withCount 1..512 (thorough 5000), all key lists of length <= 4 over {a,b,ab,ba,a-b} (with duplicates), all matrices with <= 3 axes x <= 3 values over {1,2,12,21} (with duplicates): for every spec admission accepts, the expansion must be the reference set (deterministic over repetitions), index hashes / task names / status slots must be distinct, and NewPod for every index must carry exactly that index's variables.",
   note="Order of the expansion is only required to be deterministic (as the property states). Sizes beyond the stated N and other value alphabets are not covered.", ref="4 C14"),
 "C16": dict(level="model_checking", tech="exhaustive enumeration of a field-presence lattice of raw admission requests driven through the real mutating webhooks as a transition system (create -> resubmit -> update), patch applied with the JSON-patch library the API server uses",
   text="~43000 raw Job requests (every optional field absent/zero/set, configName none/existing/with options/missing, option values json/yaml/junk, explicit substitutions, labels, annotations, finalizers) and 48 JobConfig shapes x 8 update kinds: the returned patch applied to the raw request must equal the object the real patcher produces, re-admission must be a no-op, a per-field oracle checks finalizer/type/ttl/maxAttempts/pendingTimeout/restartPolicy defaults, configName expansion (template, ownerRef, UID label, policy default, substitution precedence) and lastUpdated stamping exactly on schedule creation/change.",
   note="Requests always contain a spec object. The raw requests are what a client submits; API-server side defaulting/pruning by the CRD schema is not modelled.", ref="4 C16"),
 "C17": dict(level="exploration", tech=ENUM + " (validator . mutator . cron scheduler . job builder . pod builder composed)",
   text="~4000 cron expressions (every field atom * / 5 / */5 / 1-3 / 1,2 / H / H/5 / L / ? / junk over 5-7 fields, one field at a time plus pairs) x 16 cron dynamic configs, 16 timezones x 3 expressions, 800 option/parallelism/maxAttempts shapes: every JobConfig admission accepts must load in cronschedule.New next to a healthy JobConfig (which must stay scheduled), Bump, instantiate into a Job that passes real admission, and build a Pod for every index. Update immutability: 20 immutable edits alone, in all pairs and combined with a harmless edit, on 12 base Jobs (started x kill none/past/future x live/terminating), plus startPolicy and killTimestamp rules.",
   note="Finite grammar-bounded alphabet; boundary killTimestamp == now is not asserted either way.", ref="4 C17"),
 "C18": dict(level="exploration", tech=ENUM + "; Go map iteration order owned by folding single-entry calls of the real function over every permutation",
   text="All five option types x config variants (required, default present/absent/whitespace, trim, allowCustom, values, delimiter, bool formats, date formats) x 22 submitted values (absent, null, empty, valid, custom, wrong type, lists, variable syntax): evaluation must reject or yield exactly the reference value, and an absent value must equal MakeDefaultOptions. Substitution determinism: every map of 2-3 (thorough 4) entries over values containing other variables x 5 targets is folded in every order through the real SubstituteVariables; on every order-sensitive input the real multi-entry call must return one result over 64 repetitions. Precedence explicit > option value > JobConfig default > context is checked in the Pod built from a Job admitted by the real webhooks.",
   note="The repeated call on order-sensitive inputs relies on the Go runtime's randomised map iteration to expose an unordered fold (probability of a miss 2^-63 per input); which inputs are order-sensitive is decided exhaustively.", ref="4 C18"),
 "C19": dict(level="model_checking", tech="exhaustive enumeration of event sequences (<= 4, thorough 5) over an 11-event alphabet on the real ConfigManager + ConfigMap/Secret loaders (events enter through the real handleUpdate), reading all three config kinds after every event, compared with a layered reference model with last-known-good",
   text="(a) every field of the three kinds x ConfigMap in {unset, zero, non-zero} x Secret in {unset, zero, non-zero}, and all ordered pairs of fields across and within sources; (b) all sequences of good / empty / junk-YAML / wrong-type / other-name / bad-base64 updates to either source: after every event Jobs(), JobConfigs(), Cron() must equal the per-field highest-priority setter, or the last good typed value when the merged content is undecodable, never an error after a good value, never a mixture.",
   note="Informers of the loaders are bypassed (Start is a no-op wrapper; the real event handler is called through a verif-tagged accessor). Readers are polled after every event, so last-known-good means last good state.", ref="4 C19"),
})
CLAIMED.update({
 "C02": dict(level="model_checking", tech=MC + "; schedule requests enter through the real EnqueueHandler, syncs through the real cron Reconciler with the real activejobstore",
   text="BFS over duplicate / out-of-order schedule requests for 1-4 JobConfigs (names a, a.b, a-1, a-1700000000) x 2 schedule times, informer deliveries (lag <= 1-2), reconciler syncs, failing / applied-but-timed-out / lost-race (AlreadyExists) creates, crash and restart (queue lost, requests repeated), user deleting a created Job: every Job create is judged for uniqueness per (owner UID, schedule time), name = <jobconfig>-<unix>, schedule-time annotation, single controller owner, UID label, policy and type; at rest every requested (JobConfig, time) has its Job; retry loops without progress are reported by the bottom-SCC livelock analysis.",
   note="The CronWorker itself is not part of this world (C01/C03/C04); requests are environment transitions. Trusts the simulated API server's name uniqueness.", ref="4 C02"),
 "C15": dict(level="model_checking", tech=MC + "; the queue and job controllers are abstracted by environment transitions using the real status computation",
   text="BFS over creation (scheduled/ad-hoc), start, finish and deletion of <= 3 Jobs (thorough 4) of one JobConfig (schedule enabled/disabled/absent), independent lag of the Job and JobConfig caches (<= 2), failing status writes and restart: at every quiescent state status.activeJobs/queuedJobs/active/queued must equal the authoritative sets and state must be the implied one; every status write is checked for non-decreasing lastScheduled/lastExecuted, and at rest both must cover every Job that was in the controller's cache during a sync whose write took effect, even after deletion.",
   note="Lister order is fixed (sorted) by the harness: the real controller lists Jobs in Go map order, which only permutes the reference lists. A Job deleted before any sync could see it cannot be reflected by any level-triggered controller; that strict reading is counted in the evidence, not asserted.", ref="4 C15"),
})
CLAIMED.update({
 "C20": dict(level="fault_enumeration", tech="deviation-bounded exhaustive enumeration of failing API calls (error / conflict / applied-but-timed-out) over a deterministic end-to-end schedule of all four real controllers, differential final-state oracle; plus fault-budgeted BFS of every controller world with all safety monitors and bottom-SCC livelock analysis",
   text="(b) End to end: cron worker, cron reconciler, queue, job and jobconfig controllers, active-job store and webhooks on one simulated API server run 4 workloads (Forbid/Enqueue/Allow, fast and overlapping pods, parallel with retries, TTL clean-up) under a deterministic schedule; every API call of the fault-free run (37-90 calls) is a deviation point for each fault kind, all executions with <= 1 (quick) / <= 2 (thorough) deviations run to the horizon; the canonical final API state must equal the fault-free one and safety monitors (one Job per schedule time, concurrency limit, one live task per index, no attempt created twice, Job removed only after listed tasks) must hold. (a) The job, queue, cron-reconciler and jobconfig worlds are explored by BFS with a fault budget of 1-3; every safety monitor of C02/C05-C13/C15 firing on a history with faults counts for C20, and any bottom SCC of system transitions with a cycle (retrying forever without progress) is a livelock violation.",
   note="Faults cost no simulated time (the back-off is below the model's resolution). Crashes are covered by C09 (job controller) and the C04 end-to-end crash unit, not here. Known finding F8 (applied-but-failed start write) is reported as KNOWN-FINDING.", ref="4 C20"),
})
CLAIMED["C04"]["level"] = "fault_enumeration"
CLAIMED["C04"]["tech"] += "; plus crash enumeration at every API call of an end-to-end run (all controllers) with restart and quiescence"
CLAIMED["C04"]["text"] += " End to end: the cron worker, cron reconciler, queue/job/jobconfig controllers run three schedule times; a process crash is injected at every API call of the fault-free run (29 calls), all in-memory state is discarded, controllers restart from the API and run to quiescence: every schedule time later than the lastScheduled persisted at the crash must have exactly one Job, none may be missing at or before it, none extra."
for _p in ("C03", "C05", "C09", "C15", "C16", "C19"):
    CLAIMED[_p]["tech"] += "; the thorough tier adds a separate free-running `go test -race` pass of the same bodies (real goroutines, work queues and informers over client-go fakes) that backs the explorer's scheduling-point assumption - auxiliary, sampled, a data race in the property's code is reported as monitor=data-race"
CLAIMED["C01"]["tech"] = CLAIMED["C01"]["tech"].replace("(6 tick lengths, depth 5/6-7)", "(6 tick lengths, depth 5; thorough: breadth-first search over the states (instant, heap content, reference cursors) reached by 7 tick lengths to depth 7/8, every tick from every state, merged sequences re-validated against the recorded futures)")
CLAIMED["C02"]["text"] += " One scenario puts furiko's own bookkeeping keys (schedule-time annotation, job-config-uid label) into the job template as user metadata."
CLAIMED["C04"]["text"] += ' A second end-to-end workload has the user delete the newest scheduled Job (an older one remains) before the crash points: no schedule time may get a Job created a second time.'
CLAIMED["C05"]["text"] += ' Cold-start restarts: after a restart the Job and JobConfig informers list in either order (notifications handled against a still-empty other cache), the store recovers afterwards, one resync round.'
CLAIMED["C09"]["text"] += ' Also: cold-start restarts (informers listing one after the other), a task reaped for its pending timeout that finishes by itself and then disappears (its recorded final state must stay).'
CLAIMED["C10"]["text"] += ' Includes a parallel Job with one bound Pod stuck terminating past the force-delete timeout while its sibling runs.'
CLAIMED["C12"]["text"] += ' Includes kills of Jobs already finished by an admission error while recorded tasks of other indexes live (foreign Pod on the name of attempt 0 or of the first retry), and a parallel Job with a stuck Pod that is force-deleted.'
CLAIMED["C15"]["text"] += ' Includes a cold-start restart (JobConfig and Job informers listing in either order).'
CLAIMED["C01"]["text"] += ' One population has multi-expression schedules in which one expression has no time left (past year, impossible date, running out during the run, all exhausted).'
CLAIMED["C01"]["text"] += ' A further unit lets time pass while Work() runs (the clock advances at every reading, 50 ms / 300 ms / 1.1 s): Work() must return, nothing is requested early or twice.'
CLAIMED["C04"]["text"] += ' The product also has a standby variant: controller objects constructed an hour before they are initialised and run.'
CLAIMED["C14"]["text"] += ' Matrix keys are also varied over every accepted character class (dash, underscore, digits, twins, prefixes), every subset of up to three of eight keys.'
CLAIMED["C14"]["text"] += ' Two more units: every ordered pair of 8 parallelism specs as an update of an admitted Job (started or not) must be refused; every combination of the three forms absent / present-but-empty / given must, if admitted, expand to the indexes of the one form that is given.'
CLAIMED["C16"]["text"] += " One JobConfig is stored undefaulted; after every admission the JobConfigs in the webhook's informer cache must be byte-identical to what the informer stored."
CLAIMED["C17"]["text"] += " JobConfig shapes include job templates carrying furiko's own label/annotation keys and a finalizer."
CLAIMED["C18"]["text"] += ' Specs with three options (every ordered triple of nine option shapes x 7^3 submitted value combinations) are evaluated jointly and compared with each option evaluated alone.'
CLAIMED["C18"]["text"] += ' The pod template also references unknown reserved-prefix variables with hyphens, slashes-free odd names and a user variable set to the empty string.'
CLAIMED["C06"]["text"] += ' Includes a limit-1 scenario with a preemption point between the decisions for two queued Jobs.'
CLAIMED["C07"]["text"] += " The clock also visits the instant 400 ms before every pending startAfter (a sibling Job's event causes a sync then)."
CLAIMED["C13"]["text"] += " A pure unit enumerates the effective TTL helper over every combination of Job value and configured default, absent included."
CLAIMED["C16"]["text"] += " Submitted labels include a stale reserved job-config-uid label."
CLAIMED["C13"]["text"] += " Includes a Job submitted with somebody else's finalizer that is released after deletion."
CLAIMED["C04"]["text"] += ' Every case also carries a JobConfig of the same name in another namespace (its own catch-up budget).'
CLAIMED["C07"]["text"] += ' A Job that is not yet due must not be refused either (Forbid with a future startAfter at the limit).'
CLAIMED["C15"]["text"] += ' Includes a scenario in which every deletion reaches the handlers as a DeletedFinalStateUnknown tombstone.'
CLAIMED["C19"]["text"] += ' The update sequences include Secrets and ConfigMaps of other names in the same namespace (must be ignored).'
CLAIMED["C20"]["text"] += ' Includes the same call failing twice in a row after a kill.'
CLAIMED["C04"]["note"] = "A crash before the first-ever schedule time was recorded loses that time by design (never scheduled => not back-scheduled); counted in the evidence, not reported."
PENDING_REASON = "check not built yet in this session (planned, see DESIGN.md section 4)"

props = [json.loads(l) for l in open("/verif/properties.jsonl")]
checks, na = [], []
for p in props:
    pid = p["id"]
    if pid in CLAIMED:
        c = CLAIMED[pid]
        checks.append({
            "property_id": pid,
            "quick_cmd": f"./check.sh {pid} quick",
            "thorough_cmd": f"./check.sh {pid} thorough",
            "evidence_file": f"/verif/evidence/{pid}.json",
            "replay_cmd_template": ".build/mc replay {path}",
            "engine": "mc",
            "level_claimed": {"category": c["level"], "text": c["text"], "design_ref": "DESIGN.md section " + c["ref"]},
            "level_note": c["note"],
            "technique": c["tech"],
        })
    else:
        na.append({"property_id": pid, "reason": PENDING_REASON})

manifest = {
    "version": 1,
    "setup_cmd": "./setup.sh",
    "hooks": {
        "guard": "verif",
        "enable": "go build -tags verif (new files zz_verif.go only; see DESIGN.md section 8)",
        "baseline_off_cmd": "cd /repo && GOFLAGS=-mod=mod GOPROXY=off GOSUMDB=off go test -json -vet=off -count=1 -timeout 25m ./...",
        "source_commits": hooks_commits(),
        "add_only": True,
    },
    "engines": [{"name": "mc", "path": "/verif/cmd/mc", "serves_properties": sorted(CLAIMED),
                 "kind_free_text": "hand-written explicit-state model checker in Go driving the real furiko controllers against a simulated API server, informers, work queues, kubelet and clock; plus exhaustive input enumerations against reference models"}],
    "checks": checks,
    "not_applicable": na,
    "notes": "All checks rebuild .build/mc from /repo's working tree with -tags verif. known_findings.json lists recorded genuine defects; see DESIGN.md.",
}
json.dump(manifest, open("/verif/MANIFEST.json", "w"), indent=1)
print("claimed:", sorted(CLAIMED), "not claimed:", len(na))
