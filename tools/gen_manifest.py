#!/usr/bin/env python3
"""Generates MANIFEST.json from the table below (single source of truth for claimed checks)."""
import json, subprocess

def hooks_commits():
    try:
        out = subprocess.check_output(["git", "-C", "/repo", "log", "--format=%H %s"], text=True)
        return [l.split()[0] for l in out.splitlines() if "verif hooks" in l]
    except Exception:
        return []

MC = "explicit-state model checking of the real controller code (BFS over deliver/work/env/clock/fault/crash transitions, canonical-state dedup, replay-validated)"
CLAIMED = {
 "C08": dict(level="model_checking", tech=MC,
   text="Exhaustive BFS over all interleavings of informer deliveries, reconciler syncs, kubelet outcomes (run/succeed/fail/vanish) and clock advances for Jobs with 1-2 indexes (none/withCount/withKeys/withMatrix), both strategies, maxAttempts 1-3, retryDelay 0/10s, cache lag <= 1 (quick) / 2 (thorough); every Pod create issued by the real jobcontroller is judged against the authoritative Pods and the simulated clock.",
   note="Trusts the simulated API server/kubelet model (DESIGN.md 2.1, 5). Violations needing a stale Job cache are a recorded known finding; bounded workload sizes.", ref="4 C08"),
}
PENDING_REASON = "check not built yet in this session (planned, see DESIGN.md section 4)"

props = [json.loads(l) for l in open("/verif/properties.jsonl")]
checks, na = [], []
for p in props:
    pid = p["id"]
    if pid in CLAIMED:
        c = CLAIMED[pid]
        checks.append({
            "property_id": pid,
            "quick_cmd": f"./check.sh {pid} quick",
            "thorough_cmd": f"./check.sh {pid} thorough",
            "evidence_file": f"/verif/evidence/{pid}.json",
            "replay_cmd_template": ".build/mc replay {path}",
            "engine": "mc",
            "level_claimed": {"category": c["level"], "text": c["text"], "design_ref": "DESIGN.md section " + c["ref"]},
            "level_note": c["note"],
            "technique": c["tech"],
        })
    else:
        na.append({"property_id": pid, "reason": PENDING_REASON})

manifest = {
    "version": 1,
    "setup_cmd": "./setup.sh",
    "hooks": {
        "guard": "verif",
        "enable": "go build -tags verif (new files zz_verif.go only; see DESIGN.md section 8)",
        "baseline_off_cmd": "cd /repo && GOFLAGS=-mod=mod GOPROXY=off GOSUMDB=off go test -json -vet=off -count=1 -timeout 25m ./...",
        "source_commits": hooks_commits(),
        "add_only": True,
    },
    "engines": [{"name": "mc", "path": "/verif/cmd/mc", "serves_properties": sorted(CLAIMED),
                 "kind_free_text": "hand-written explicit-state model checker in Go driving the real furiko controllers against a simulated API server, informers, work queues, kubelet and clock; plus exhaustive input enumerations against reference models"}],
    "checks": checks,
    "not_applicable": na,
    "notes": "All checks rebuild .build/mc from /repo's working tree with -tags verif. known_findings.json lists recorded genuine defects; see DESIGN.md.",
}
json.dump(manifest, open("/verif/MANIFEST.json", "w"), indent=1)
print("claimed:", sorted(CLAIMED), "not claimed:", len(na))
