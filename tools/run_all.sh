#!/bin/bash
# usage: tools/run_all.sh [quick|thorough]  -- runs every claimed check once, prints one line per property
cd "$(dirname "$0")/.."
tier=${1:-quick}
rc=0
for p in $(python3 -c "import json;print(' '.join(c['property_id'] for c in json.load(open('MANIFEST.json'))['checks']))"); do
  start=$(date +%s)
  out=$(./check.sh $p $tier 2>&1); code=$?
  echo "$p exit=$code $(( $(date +%s) - start ))s | $(echo "$out" | grep -c '^KNOWN-FINDING') known | $(echo "$out" | grep "^$p $tier" | cut -c1-200)"
  if [ $code -ne 0 ]; then rc=1; echo "$out" | grep -v "^KNOWN" | head -20; fi
done
exit $rc
