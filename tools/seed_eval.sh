#!/bin/bash
# usage: tools/seed_eval.sh C05 [check ids...]   -- confirms an independently written breaking change and runs our checks on it
# 1) clean scratch worktree: patch applies, builds, existing tests pass, demo fails with / passes without the patch
# 2) apply to /repo, run the named checks (default: the property's own), undo.
set -u
id=$1; shift
checks=${@:-$id}
src=/tmp/seed-$id/_seed
export GOFLAGS=-mod=mod GOPROXY=off GOSUMDB=off GOTOOLCHAIN=local
wt=/root/scratch/sv-$id
rm -rf $wt; git -C /repo worktree prune
git -C /repo worktree add -q --detach $wt HEAD || exit 2
demo=$(cd /tmp/seed-$id && find pkg -name zz_seed_demo_test.go | head -1)
demodir=$(dirname $demo)
echo "== $id: patch touches: $(grep '^+++ ' $src/patch.diff | tr '\n' ' ')  demo in $demodir"
( cd $wt && git apply $src/patch.diff ) || { echo "PATCH DOES NOT APPLY"; exit 2; }
cp $src/zz_seed_demo_test.go $wt/$demodir/zz_seed_demo_test.go
( cd $wt && go build ./pkg/... ) || { echo "BUILD FAILS"; exit 2; }
echo "-- existing tests with the change (demo skipped):"
( cd $wt && go test -count=1 -skip 'SeedDemo' ./pkg/execution/... ./pkg/core/... ./pkg/runtime/... ./pkg/utils/... 2>&1 | grep -v "^ok\|no test files" | head -10; echo "existing-tests-exit=${PIPESTATUS[0]}" )
echo "-- demo with the change (expected FAIL):"
( cd $wt && go test -count=1 -run 'SeedDemo' ./$demodir/ 2>&1 | tail -4 )
( cd $wt && git apply -R $src/patch.diff )
echo "-- demo without the change (expected ok):"
( cd $wt && go test -count=1 -run 'SeedDemo' ./$demodir/ 2>&1 | tail -2 )
git -C /repo worktree remove --force $wt
echo "-- our checks on /repo with the change applied:"
git -C /repo apply $src/patch.diff || { echo "cannot apply to /repo"; exit 2; }
mkdir -p /root/scratch/seedout-$id; cp /verif/known_findings.json /verif/MANIFEST.json /root/scratch/seedout-$id/
for c in $checks; do
  out=$(cd /verif && VERIF_DIR_OVERRIDE=/root/scratch/seedout-$id ./check.sh $c quick 2>&1)
  echo "$c exit=$? $(echo "$out" | grep -c '^VIOLATION') violation line(s)"
  echo "$out" | grep -A2 "^VIOLATION" | head -9 | cut -c1-400
done
git -C /repo checkout -- .
git -C /repo status --short | head -3
rm -rf /root/scratch/seedout-$id
