#!/bin/bash
# usage: tools/seed_eval.sh C05 [check ids...]   -- confirms an independently written breaking change and runs our checks on it
# 1) clean scratch worktree: patch applies, builds, existing tests pass, demo fails with / passes without the patch
# env: TIER=thorough BUDGET=<s per unit> SKIPCONFIRM=1 (skip step 1)
# 2) apply to /repo, run the named checks (default: the property's own), undo.
set -u
id=$1; shift
checks=${@:-${id%%-*}}
root=${SEEDROOT:-/tmp/seed-}$id; src=$root/_seed
# default: the recorded copy under /verif/seeded/<id>
if [ ! -d "$src" ]; then src=/verif/seeded/$id; root=""; fi
export GOFLAGS=-mod=mod GOPROXY=off GOSUMDB=off GOTOOLCHAIN=local
wt=/root/scratch/sv-$id
rm -rf $wt; git -C /repo worktree prune
git -C /repo worktree add -q --detach $wt HEAD || exit 2
if [ -n "$root" ]; then
  demo=$(cd $root && find pkg -name zz_seed_demo_test.go | head -1); demodir=$(dirname $demo)
else
  demodir=$(python3 -c "import json;print(json.load(open('$src/meta.json'))['demo_package_dir'])")
fi
echo "== $id: patch touches: $(grep '^+++ ' $src/patch.diff | tr '\n' ' ')  demo in $demodir"
( cd $wt && git apply $src/patch.diff ) || { echo "PATCH DOES NOT APPLY"; exit 2; }
cp $src/zz_seed_demo_test.go $wt/$demodir/zz_seed_demo_test.go
( cd $wt && go build ./pkg/... ) || { echo "BUILD FAILS"; exit 2; }
if [ -z "${SKIPCONFIRM:-}" ]; then
echo "-- existing tests with the change (demo skipped):"
( cd $wt && go test -count=1 -skip 'SeedDemo' ./pkg/execution/... ./pkg/core/... ./pkg/runtime/... ./pkg/utils/... 2>&1 | grep -v "^ok\|no test files" | head -10; echo "existing-tests-exit=${PIPESTATUS[0]}" )
echo "-- demo with the change (expected FAIL):"
( cd $wt && go test -count=1 -run 'SeedDemo' ./$demodir/ 2>&1 | tail -4 )
( cd $wt && git apply -R $src/patch.diff )
echo "-- demo without the change (expected ok):"
( cd $wt && go test -count=1 -run 'SeedDemo' ./$demodir/ 2>&1 | tail -2 )
( cd $wt && git apply $src/patch.diff )
fi
echo "-- our checks with the change applied (overlay build, /repo untouched):"
so=/root/scratch/seedout-$id; rm -rf $so; mkdir -p $so; cp /verif/known_findings.json /verif/MANIFEST.json $so/
python3 - "$wt" "$src/patch.diff" "$so/overlay.json" <<'PY'
import json,sys,re
wt,patch,out=sys.argv[1:]
files=[l[6:].strip() for l in open(patch) if l.startswith('+++ b/')]
json.dump({"Replace":{"/repo/"+f: wt+"/"+f for f in files}}, open(out,"w"))
PY
( cd /verif && go build -tags verif -overlay $so/overlay.json -o $so/mc ./cmd/mc ) || { echo "overlay build failed"; exit 2; }
for c in $checks; do
  out=$(cd /verif && VERIF_DIR=$so VERIF_BUDGET_S=${BUDGET:-150} $so/mc check $c ${TIER:-quick} 2>&1)
  echo "$c exit=$? $(echo "$out" | grep -c '^VIOLATION') violation line(s)"
  echo "$out" | grep -A2 "^VIOLATION" | head -9 | cut -c1-400; echo "$out" | grep "^ERROR\|^NONDET\|^UNSTABLE" | head -5 | cut -c1-600
done
git -C /repo worktree remove --force $wt
rm -rf $so
