#!/usr/bin/env python3
"""Summarise `go test -race` output: one line per distinct pair of access sites (first non-runtime frames)."""
import re, sys, json
txt = open(sys.argv[1]).read()
blocks = txt.split('WARNING: DATA RACE')[1:]
seen = {}
for b in blocks:
    b = b.split('==================')[0]
    accesses = re.split(r'\n\n', b.strip())[:2]
    sig = []
    for part in accesses:
        lines = part.strip().split('\n')
        kind = lines[0].split(' at ')[0].strip()
        site = ''
        for i in range(1, len(lines) - 1, 2):
            fn, loc = lines[i].strip(), lines[i + 1].strip().split(' +')[0]
            if loc.startswith('/usr/lib/go') or '/go-1.' in loc:
                continue
            site = fn.split('(')[0].split('/')[-1] + ' ' + loc
            break
        sig.append(kind + ': ' + site)
    k = ' || '.join(sig)
    seen[k] = seen.get(k, 0) + 1
out = [{"count": v, "sites": k} for k, v in sorted(seen.items(), key=lambda x: -x[1])]
json.dump(out, sys.stdout, indent=1)
print()
