// Command mc is the model checker for the furiko properties C01-C20.
//
//	mc check <property> <quick|thorough>   run all scenarios of a property, write evidence
//	mc scenario                            (internal) run one scenario read from stdin
//	mc replay <file>                       re-execute a recorded violation trace without the explorer
//	mc list <property> <tier>              list scenario ids
package main

import (
	"fmt"
	"os"
	_ "time/tzdata"

	_ "verif/internal/cronmc"
	_ "verif/internal/e2emc"
	_ "verif/internal/puremc"
)

func main() {
	if len(os.Args) < 2 {
		fmt.Fprintln(os.Stderr, "usage: mc check|scenario|replay|list ...")
		os.Exit(2)
	}
	switch os.Args[1] {
	case "check":
		os.Exit(cmdCheck(os.Args[2:]))
	case "scenario":
		os.Exit(cmdScenario())
	case "replay":
		os.Exit(cmdReplay(os.Args[2:]))
	case "list":
		os.Exit(cmdList(os.Args[2:]))
	case "trace":
		os.Exit(cmdTrace(os.Args[2:]))
	default:
		fmt.Fprintln(os.Stderr, "unknown command", os.Args[1])
		os.Exit(2)
	}
}
