package main

import (
	"bytes"
	"context"
	"crypto/sha256"
	"encoding/hex"
	"encoding/json"
	"fmt"
	"os"
	"os/exec"
	"path/filepath"
	"runtime"
	"sort"
	"strconv"
	"strings"
	"sync"
	"time"

	"k8s.io/klog/v2"

	"verif/internal/mc"
	"verif/internal/pure"
	"verif/internal/worlds"
)

// unit is one independently runnable piece of a check, executed in its own
// process (furiko's clocks are package-level variables).
type unit struct {
	Kind     string           `json:"kind"` // bfs | pure
	Scenario *worlds.Scenario `json:"scenario,omitempty"`
	Pure     *pure.Spec       `json:"pure,omitempty"`
	Deadline int64            `json:"deadline_unix,omitempty"`
	Property string           `json:"property"`
}

func (u unit) id() string {
	if u.Scenario != nil {
		return u.Scenario.ID
	}
	return u.Pure.ID
}

type knownFinding struct {
	Property string   `json:"property"`
	Monitor  string   `json:"monitor"`
	Requires []string `json:"requires,omitempty"`
	Input    string   `json:"input,omitempty"`
	Status   string   `json:"status"`
	What     string   `json:"what"`
}

func verifDir() string {
	if d := os.Getenv("VERIF_DIR"); d != "" {
		return d
	}
	return "/verif"
}

func loadKnown() []knownFinding {
	raw, err := os.ReadFile(filepath.Join(verifDir(), "known_findings.json"))
	if err != nil {
		return nil
	}
	var out []knownFinding
	if err := json.Unmarshal(raw, &out); err != nil {
		fmt.Fprintln(os.Stderr, "known_findings.json:", err)
		os.Exit(2)
	}
	return out
}

func hasFaultFeature(fs []string) bool {
	for _, f := range fs {
		if f == "fault" || strings.HasPrefix(f, "fault:") {
			return true
		}
	}
	return false
}

func subset(need, have []string) bool {
	set := map[string]bool{}
	for _, h := range have {
		set[h] = true
	}
	for _, n := range need {
		if !set[n] {
			return false
		}
	}
	return true
}

func matchKnown(known []knownFinding, f mc.Found) *knownFinding {
	for i := range known {
		k := &known[i]
		if k.Status != "open" || k.Property != f.Property || k.Monitor != f.Monitor {
			continue
		}
		if k.Input != "" {
			if !strings.Contains(f.Detail, k.Input) {
				continue
			}
			return k
		}
		if len(k.Requires) > 0 && !subset(k.Requires, f.Features) {
			continue
		}
		return k
	}
	return nil
}

var levels = map[string]string{
	"C09": "fault_enumeration", "C20": "fault_enumeration",
	"C14": "exploration", "C17": "exploration", "C18": "exploration",
}

// levelOf takes the claimed level from MANIFEST.json so that evidence and manifest cannot diverge.
func levelOf(prop string) string {
	if raw, err := os.ReadFile(filepath.Join(verifDir(), "MANIFEST.json")); err == nil {
		var m struct {
			Checks []struct {
				PropertyID   string `json:"property_id"`
				LevelClaimed struct {
					Category string `json:"category"`
				} `json:"level_claimed"`
			} `json:"checks"`
		}
		if json.Unmarshal(raw, &m) == nil {
			for _, c := range m.Checks {
				if c.PropertyID == prop && c.LevelClaimed.Category != "" {
					return c.LevelClaimed.Category
				}
			}
		}
	}
	if l, ok := levels[prop]; ok {
		return l
	}
	return "model_checking"
}

func cmdList(args []string) int {
	prop, tier := args[0], args[1]
	for _, s := range worlds.ScenariosFor(prop, tier) {
		fmt.Println("bfs ", s.ID)
	}
	for _, p := range pure.SpecsFor(prop, tier) {
		fmt.Println("pure", p.ID)
	}
	return 0
}

func cmdScenario() int {
	klog.SetOutput(devNull{})
	klog.LogToStderr(false)
	var u unit
	if err := json.NewDecoder(os.Stdin).Decode(&u); err != nil {
		fmt.Fprintln(os.Stderr, "decode unit:", err)
		return 2
	}
	var res mc.Result
	deadline := time.Time{}
	if u.Deadline > 0 {
		deadline = time.Unix(u.Deadline, 0)
	}
	switch u.Kind {
	case "bfs":
		s := *u.Scenario
		// The search does not expand beyond a transition that violates the property being checked
		// (its consequences would only be noise). A violation of another property's monitor is
		// recorded as a cross-property observation and the search goes on behind it: what this
		// property demands must hold there too (C20 owns every safety monitor, so it stops at all).
		// Exception: a violation that needed a stale cache (F3/F11: tasks duplicated or wrongly
		// declared lost) leaves a Job whose bookkeeping is corrupt; everything behind it is noise
		// for every property and multiplies the space, so the search stops there as well.
		decides := func(v mc.Violation) bool { return true }
		if u.Property != "C20" && os.Getenv("VERIF_STOP_ALL") == "" {
			decides = func(v mc.Violation) bool {
				if v.Property == u.Property {
					return true
				}
				// (job-controller properties only: that is where stale caches corrupt the bookkeeping)
				if v.Property >= "C08" && v.Property <= "C13" {
					for _, f := range v.Features {
						if strings.HasPrefix(f, "stale:") {
							return true
						}
					}
				}
				return false
			}
		}
		res = mc.Explore(s.ID, worlds.Factory(s), mc.Options{
			Decides:   decides,
			MaxStates: s.MaxStates, MaxDepth: s.MaxDepth, Deadline: deadline,
			Livelock: true, KeepSamples: 3, LivelockProperty: "C20", ValidateEvery: validateEvery(), PanicProperty: u.Property,
		})
	case "pure":
		res = pure.Run(*u.Pure, deadline)
	}
	out, _ := json.Marshal(res)
	os.Stdout.Write(out)
	return 0
}

func validateEvery() int {
	if v, err := strconv.Atoi(os.Getenv("VERIF_VALIDATE_EVERY")); err == nil && v > 0 {
		return v
	}
	return 16
}

type devNull struct{}

func (devNull) Write(p []byte) (int, error) { return len(p), nil }

// hangGrace is how long a unit may overrun its deadline. Units poll the deadline between
// transitions (milliseconds each), so an overrun of minutes means one step never returned.
const hangGrace = 3 * time.Minute

func runUnit(u unit) (mc.Result, error) { return runUnitEnv(u) }

func runUnitEnv(u unit, extraEnv ...string) (mc.Result, error) {
	in, _ := json.Marshal(u)
	limit := 40 * time.Minute
	if u.Deadline > 0 {
		limit = time.Until(time.Unix(u.Deadline, 0)) + hangGrace
	}
	ctx, cancel := context.WithTimeout(context.Background(), limit)
	defer cancel()
	cmd := exec.CommandContext(ctx, os.Args[0], "scenario")
	cmd.Stdin = bytes.NewReader(in)
	cmd.Env = append(append(os.Environ(), "GOMAXPROCS=2"), extraEnv...)
	var stdout, stderr bytes.Buffer
	cmd.Stdout, cmd.Stderr = &stdout, &stderr
	err := cmd.Run()
	var res mc.Result
	if ctx.Err() == context.DeadlineExceeded {
		// The code under test did not come back from a call: a finding, like a panic.
		res = mc.Result{Scenario: u.id(), Exhaustive: false, CapHit: "hang", Counters: map[string]int{}, Outcomes: map[string]int{}, ActionKinds: map[string]int{}}
		res.Found = append(res.Found, mc.Found{Scenario: u.id(), Violation: mc.Violation{Property: u.Property, Monitor: "hang",
			Detail: fmt.Sprintf("unit %s was still inside one step %v after its deadline: the code under test does not return (endless loop or deadlock)", u.id(), hangGrace)}})
		return res, nil
	}
	if err != nil {
		tail := stderr.String()
		if len(tail) > 3000 {
			tail = tail[len(tail)-3000:]
		}
		return res, fmt.Errorf("unit %s: %v\n%s", u.id(), err, tail)
	}
	if err := json.Unmarshal(stdout.Bytes(), &res); err != nil {
		return res, fmt.Errorf("unit %s: bad result: %v: %.300s", u.id(), err, stdout.String())
	}
	return res, nil
}

func cmdCheck(args []string) int {
	if len(args) < 2 {
		fmt.Fprintln(os.Stderr, "usage: mc check <property> <quick|thorough>")
		return 2
	}
	prop, tier := args[0], args[1]
	if t := os.Getenv("VERIF_TIER"); t == "quick" || t == "thorough" {
		tier = t
	}
	seed, _ := strconv.Atoi(os.Getenv("VERIF_SEED"))
	start := time.Now()
	budget := 150 * time.Second
	if tier == "thorough" {
		budget = 25 * time.Minute
	}
	if v := os.Getenv("VERIF_BUDGET_S"); v != "" {
		n, _ := strconv.Atoi(v)
		budget = time.Duration(n) * time.Second
	}
	deadline := start.Add(budget)

	var units []unit
	for _, s := range worlds.ScenariosFor(prop, tier) {
		s := s
		units = append(units, unit{Kind: "bfs", Scenario: &s, Deadline: deadline.Unix(), Property: prop})
	}
	for _, p := range pure.SpecsFor(prop, tier) {
		p := p
		units = append(units, unit{Kind: "pure", Pure: &p, Deadline: deadline.Unix(), Property: prop})
	}
	if len(units) == 0 {
		fmt.Fprintf(os.Stderr, "no scenarios registered for %s/%s\n", prop, tier)
		return 2
	}
	only := os.Getenv("VERIF_ONLY")

	par := runtime.NumCPU()
	if par > 16 {
		par = 16
	}
	results := make([]mc.Result, len(units))
	errs := make([]error, len(units))
	sem := make(chan struct{}, par)
	var wg sync.WaitGroup
	for i, u := range units {
		if only != "" && !strings.Contains(u.id(), only) {
			continue
		}
		wg.Add(1)
		go func(i int, u unit) {
			defer wg.Done()
			sem <- struct{}{}
			defer func() { <-sem }()
			results[i], errs[i] = runUnit(u)
			// Snapshot mode restores only harness-owned state. If a replay from scratch disagrees with it,
			// the code under test keeps state of its own (e.g. writes into an informer-cache object): explore
			// that unit again purely by replay, where such state is reproduced, to get a verdict.
			if errs[i] == nil && results[i].Nondet != "" && u.Kind == "bfs" && os.Getenv("VERIF_NO_SNAPSHOT") == "" {
				fmt.Fprintf(os.Stderr, "note: %s: snapshot/replay mismatch (%s); re-running by replay only\n", u.id(), results[i].Nondet)
				os.Setenv("VERIF_NO_SNAPSHOT_UNIT", "1")
				r2, e2 := runUnitEnv(u, "VERIF_NO_SNAPSHOT=1")
				if e2 == nil {
					r2.Counters["rerun-by-replay-after-snapshot-mismatch"]++
					results[i] = r2
				}
			}
		}(i, u)
	}
	wg.Wait()

	// A unit that could not be run to the end (harness panic, e.g. a replay that diverges because the
	// code under test reads the wall clock) gives no verdict for that unit; the others are still judged.
	unitErrors := 0
	for i, err := range errs {
		if err != nil {
			fmt.Fprintf(os.Stderr, "ERROR %s: %v\n", units[i].id(), err)
			unitErrors++
			results[i] = mc.Result{Scenario: units[i].id(), Exhaustive: false, CapHit: "unit error", Counters: map[string]int{}, Outcomes: map[string]int{}, ActionKinds: map[string]int{}}
		}
	}
	known := loadKnown()

	agg := struct {
		States, Transitions, Replays, Steps, Quiescent, MaxDepth int
		Evals, Distinct                                          int
		Outcomes                                                 map[string]bool
		Counters                                                 map[string]int
		Kinds                                                    map[string]int
		Exhaustive                                               bool
		Caps                                                     []string
		Samples                                                  []interface{}
		PerUnit                                                  []map[string]interface{}
	}{Outcomes: map[string]bool{}, Counters: map[string]int{}, Kinds: map[string]int{}, Exhaustive: true}

	printedKnownEarly := map[string]bool{}
	origOf := map[string][2]string{} // relabelled monitor -> original (property, monitor), for replay matching
	var deciding, cross []mc.Found
	var knownHits []string
	nondet := ""
	for i, r := range results {
		if only != "" && !strings.Contains(units[i].id(), only) {
			continue
		}
		if r.Nondet != "" {
			nondet = units[i].id() + ": " + r.Nondet
		}
		agg.States += r.States
		agg.Transitions += r.Transitions
		agg.Replays += r.Replays
		agg.Steps += r.Steps
		agg.Quiescent += r.Quiescent
		if units[i].Kind == "pure" {
			agg.Evals += r.Evaluations
			agg.Distinct += r.DistinctNontrivial
		} else {
			agg.Evals += r.Transitions
			agg.Distinct += r.States
		}
		if r.MaxDepth > agg.MaxDepth {
			agg.MaxDepth = r.MaxDepth
		}
		for o := range r.Outcomes {
			agg.Outcomes[o] = true
		}
		for k, v := range r.Counters {
			agg.Counters[k] += v
		}
		for k, v := range r.ActionKinds {
			agg.Kinds[k] += v
		}
		if !r.Exhaustive {
			agg.Exhaustive = false
			agg.Caps = append(agg.Caps, units[i].id()+": "+r.CapHit)
		}
		for j, s := range r.Samples {
			if j < 1 || len(agg.Samples) < 3 {
				agg.Samples = append(agg.Samples, map[string]interface{}{"scenario": units[i].id(), "trace": s})
			}
		}
		for _, s := range r.InputSamples {
			if len(agg.Samples) < 8 {
				agg.Samples = append(agg.Samples, s)
			}
		}
		agg.PerUnit = append(agg.PerUnit, map[string]interface{}{
			"id": units[i].id(), "states": r.States, "transitions": r.Transitions, "max_depth": r.MaxDepth,
			"quiescent": r.Quiescent, "outcomes": len(r.Outcomes), "exhaustive": r.Exhaustive, "cap": r.CapHit,
			"wall_s": r.WallS, "evaluations": r.Evaluations,
		})
		for _, f := range r.Found {
			if f.Scenario == "" {
				f.Scenario = units[i].id()
			}
			// C20 also owns every safety monitor of the other properties when it fires on a
			// history with injected faults ("none of the safety guarantees is violated along the way").
			if prop == "C20" && f.Property != "C20" && hasFaultFeature(f.Features) {
				if k := matchKnown(known, f); k != nil {
					id := "via " + k.Property + "/" + k.Monitor + "|" + strings.Join(k.Requires, ",")
					if !printedKnownEarly[id] {
						printedKnownEarly[id] = true
						line := fmt.Sprintf("KNOWN-FINDING: property=C20 (safety monitor %s/%s under faults) %s [%s]", k.Property, k.Monitor, k.What, strings.Join(k.Requires, ","))
						fmt.Println(line)
						knownHits = append(knownHits, line)
					}
					continue
				}
				origOf[f.Property+"/"+f.Monitor] = [2]string{f.Property, f.Monitor}
				f.Monitor = f.Property + "/" + f.Monitor
				f.Property = "C20"
			}
			if f.Property == prop || os.Getenv("VERIF_ALL") != "" {
				deciding = append(deciding, f)
			} else {
				cross = append(cross, f)
			}
		}
	}
	if nondet != "" {
		fmt.Printf("NONDETERMINISM %s\n", nondet)
		return 2
	}

	// Free-running race pass (thorough tier of the properties that own concurrent code).
	var raceSummary map[string]interface{}
	if tier == "thorough" && raceProperty(prop) && only == "" && os.Getenv("VERIF_NORACE") == "" {
		var fs []mc.Found
		fs, raceSummary = runRacePass(prop, deadline)
		deciding = append(deciding, fs...)
	}

	// Verdicts.
	exit := 0
	unstable := false
	printedKnown := map[string]bool{}
	printedViol := map[string]bool{}
	var violSummaries []map[string]interface{}
	outDir := filepath.Join(verifDir(), "out", prop)
	_ = os.RemoveAll(outDir) // replay files of earlier runs are stale
	for _, f := range deciding {
		if k := matchKnown(known, f); k != nil {
			id := k.Monitor + "|" + strings.Join(k.Requires, ",") + "|" + k.Input
			if !printedKnown[id] {
				printedKnown[id] = true
				line := fmt.Sprintf("KNOWN-FINDING: property=%s %s [monitor=%s %s%s]", prop, k.What, k.Monitor, strings.Join(k.Requires, ","), k.Input)
				fmt.Println(line)
				knownHits = append(knownHits, line)
			}
			continue
		}
		id := f.Monitor + "|" + strings.Join(f.Features, ",")
		if printedViol[id] {
			continue
		}
		printedViol[id] = true
		var path string
		if f.Monitor == "data-race" {
			path = writeRaceReport(outDir, f)
		} else {
			path = writeReplay(outDir, units, f, origOf[f.Monitor])
		}
		// A livelock is a property of the explored graph (a bottom SCC with a cycle), not of one
		// step; determinism of the graph is what the replay validation of the search establishes.
		// A race report is the detector's own observation of two unsynchronised accesses.
		confirmed := f.Monitor == "livelock" || f.Monitor == "data-race" || f.Monitor == "hang" || confirmReplay(path)
		if !confirmed {
			fmt.Printf("UNSTABLE property=%s monitor=%s replay=%s (did not reproduce 5/5; not reported as violation)\n", prop, f.Monitor, path)
			unstable = true
			continue
		}
		fmt.Printf("VIOLATION property=%s replay=%s\n", prop, path)
		shown := f.Detail
		if f.Monitor == "data-race" {
			shown = strings.SplitN(shown, "\n", 2)[0] + " (full report in the replay file)"
		}
		fmt.Printf("  monitor=%s features=%v scenario=%s\n  %s\n  trace(%d)=%v\n", f.Monitor, f.Features, f.Scenario, shown, len(f.Trace), f.Trace)
		violSummaries = append(violSummaries, map[string]interface{}{"monitor": f.Monitor, "detail": f.Detail, "features": f.Features, "scenario": f.Scenario, "trace": f.Trace, "replay": path})
		if exit == 0 {
			exit = 1
		}
	}
	if exit == 0 && (unstable || unitErrors > 0) {
		// Something fired that does not reproduce deterministically, or a unit did not run: no verdict.
		exit = 2
	}
	var crossSumm []string
	seenCross := map[string]bool{}
	for _, f := range cross {
		id := f.Property + "/" + f.Monitor + " " + strings.Join(f.Features, ",")
		if !seenCross[id] {
			seenCross[id] = true
			crossSumm = append(crossSumm, id)
		}
	}
	sort.Strings(crossSumm)

	// Evidence.
	level := levelOf(prop)
	cov := map[string]interface{}{
		"exhaustive":                  agg.Exhaustive,
		"caps_hit":                    agg.Caps,
		"monitor_evaluations":         agg.Counters,
		"action_kinds":                agg.Kinds,
		"units":                       agg.PerUnit,
		"known_findings_hit":          knownHits,
		"cross_property":              crossSumm,
		"violations_detail":           violSummaries,
		"max_depth":                   agg.MaxDepth,
		"quiescent_states":            agg.Quiescent,
		"distinct_quiescent_outcomes": len(agg.Outcomes),
		"steps_executed_incl_replay":  agg.Steps,
		"samples":                     agg.Samples,
	}
	if raceSummary != nil {
		cov["race_pass"] = raceSummary
	}
	if agg.States > 0 {
		cov["states"] = agg.States
		cov["transitions"] = agg.Transitions
		cov["traces_validated_against_impl"] = agg.Replays
	}
	evals, distinct := agg.Evals, agg.Distinct
	rule := "pure enumerations: every input of the stated finite alphabet is generated once; distinct_nontrivial counts distinct inputs on which the oracle actually compared something."
	if agg.States > 0 {
		rule = "BFS: evaluations = transitions executed on the real code (each applies one action to a world replayed from scratch); distinct_nontrivial = distinct canonical states (hash of API objects, caches, pending events, queues, clock, monitor memory). " + rule
	}
	cov["evaluations"] = evals
	cov["distinct_nontrivial"] = distinct
	cov["rule"] = rule
	if len(agg.Samples) == 0 {
		cov["samples"] = []interface{}{"(no sample recorded)"}
	}
	ev := map[string]interface{}{
		"property_id": prop,
		"tier":        tier,
		"seed":        seed,
		"level":       level,
		"coverage":    cov,
		"assumptions": assumptions(prop),
		"wall_s":      time.Since(start).Seconds(),
		"violations":  len(violSummaries),
	}
	raw, _ := json.MarshalIndent(ev, "", " ")
	_ = os.MkdirAll(filepath.Join(verifDir(), "evidence"), 0o755)
	if err := os.WriteFile(filepath.Join(verifDir(), "evidence", prop+".json"), raw, 0o644); err != nil {
		fmt.Fprintln(os.Stderr, "write evidence:", err)
		return 2
	}
	fmt.Printf("%s %s: units=%d states=%d transitions=%d replays_validated=%d evaluations=%d quiescent=%d outcomes=%d exhaustive=%v violations=%d known=%d wall=%.1fs\n",
		prop, tier, len(agg.PerUnit), agg.States, agg.Transitions, agg.Replays, evals, agg.Quiescent, len(agg.Outcomes), agg.Exhaustive, len(violSummaries), len(knownHits), time.Since(start).Seconds())
	if len(crossSumm) > 0 {
		fmt.Printf("  cross-property observations (decided by their own checks): %v\n", crossSumm)
	}
	return exit
}

func assumptions(prop string) []string {
	return []string{
		"environment model: simulated API server (optimistic concurrency, status subresource, finalizers, graceful pod deletion, real furiko webhooks), FIFO watch stream per resource, deterministic work queue; see DESIGN.md 2.1 and 5",
		"watch latency is below the one-second resolution of furiko's deadlines (clock advances only with empty watch FIFOs)",
		"not modelled: owner-reference garbage collection, watch relist after a broken watch, leader election hand-over between live replicas, several replicas at once; the periodic informer resync only where a scenario says so (listener lag, cold-start restarts)",
		"concurrency: controller steps are atomic except at the hooked points (queue items, informer deliveries, store operations in preemption scenarios, API calls as fault/crash points); the free-running race pass of the thorough tier backs that assumption",
		"bounded: workload sizes, deviation budgets (lag, faults, crashes) and horizons as listed per unit",
	}
}

type replayFile struct {
	Property string          `json:"property"`
	Monitor  string          `json:"monitor"`
	Detail   string          `json:"detail"`
	Features []string        `json:"features"`
	Unit     unit            `json:"unit"`
	Trace    []string        `json:"trace"`
	Input    json.RawMessage `json:"input,omitempty"`
	// MatchProperty/MatchMonitor: what the world itself reports (a monitor of another property counted for C20).
	MatchProperty string `json:"match_property,omitempty"`
	MatchMonitor  string `json:"match_monitor,omitempty"`
}

func writeReplay(dir string, units []unit, f mc.Found, orig [2]string) string {
	_ = os.MkdirAll(dir, 0o755)
	var u unit
	for _, x := range units {
		if x.id() == f.Scenario {
			u = x
		}
	}
	u.Deadline = 0
	rf := replayFile{Property: f.Property, Monitor: f.Monitor, Detail: f.Detail, Features: f.Features, Unit: u, Trace: f.Trace, MatchProperty: orig[0], MatchMonitor: orig[1]}
	raw, _ := json.MarshalIndent(rf, "", " ")
	sum := sha256.Sum256(raw)
	path := filepath.Join(dir, strings.ReplaceAll(f.Monitor, "/", "_")+"-"+hex.EncodeToString(sum[:4])+".json")
	_ = os.WriteFile(path, raw, 0o644)
	return path
}

func confirmReplay(path string) bool {
	cmd := exec.Command(os.Args[0], "replay", "-n", "5", "-q", path)
	cmd.Env = os.Environ()
	err := cmd.Run()
	if ee, ok := err.(*exec.ExitError); ok {
		return ee.ExitCode() == 1
	}
	return false
}
