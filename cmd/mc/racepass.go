package main

import (
	"crypto/sha1"
	"fmt"
	"os"
	"os/exec"
	"path/filepath"
	"regexp"
	"sort"
	"strings"
	"time"

	"verif/internal/mc"
)

// The free-running race pass (internal/racepass) backs the explorer's
// assumption that the controllers' goroutines only interact at the points it
// schedules. A data race is attributed to the property whose anchored code it
// is in; code of no listed package falls to C05, the property that names
// "concurrent workers" explicitly.
var raceOwners = []struct {
	prop string
	dirs []string
}{
	{"C19", []string{"/pkg/runtime/configloader/", "/pkg/runtime/controllercontext/context_configs.go", "/pkg/config/"}},
	{"C05", []string{"/pkg/execution/stores/activejobstore/", "/pkg/execution/controllers/jobqueuecontroller/", "/pkg/utils/atomic/"}},
	{"C03", []string{"/pkg/execution/controllers/croncontroller/", "/pkg/execution/util/cronschedule/", "/pkg/utils/heap/", "/pkg/execution/util/schedule/"}},
	{"C09", []string{"/pkg/execution/controllers/jobcontroller/", "/pkg/execution/tasks/", "/pkg/execution/taskexecutor/"}},
	{"C15", []string{"/pkg/execution/controllers/jobconfigcontroller/"}},
	{"C16", []string{"/pkg/execution/mutation/", "/pkg/execution/webhooks/"}},
}

func raceProperty(prop string) bool {
	for _, o := range raceOwners {
		if o.prop == prop {
			return true
		}
	}
	return false
}

var raceFrame = regexp.MustCompile(`^\s+(/\S+\.go):(\d+)`)

// raceOwner attributes one report: the first /repo frame of either access decides.
func raceOwner(report string) (prop string, sites []string) {
	for _, access := range strings.SplitN(report, "\n\n", 3) {
		if len(sites) == 2 {
			break
		}
		head := strings.TrimSpace(strings.SplitN(access, "\n", 2)[0])
		if !(strings.HasPrefix(head, "Read") || strings.HasPrefix(head, "Write") || strings.HasPrefix(head, "Previous") || strings.HasPrefix(head, "Atomic")) {
			continue
		}
		site := ""
		for _, l := range strings.Split(access, "\n") {
			if m := raceFrame.FindStringSubmatch(l); m != nil && strings.HasPrefix(m[1], "/repo/") {
				site = strings.TrimPrefix(m[1], "/repo") + ":" + m[2]
				break
			}
		}
		sites = append(sites, strings.SplitN(head, " at ", 2)[0]+" "+site)
	}
	for _, s := range sites {
		for _, o := range raceOwners {
			for _, d := range o.dirs {
				if strings.Contains(s, d) {
					return o.prop, sites
				}
			}
		}
	}
	for _, s := range sites {
		if strings.Contains(s, "/pkg/") || strings.Contains(s, "/apis/") {
			return "C05", sites
		}
	}
	return "", sites // only test doubles / harness frames: not furiko's code
}

// runRacePass runs the free-running harness under the race detector and returns
// the reports attributed to prop, plus a summary for the evidence file.
func runRacePass(prop string, deadline time.Time) ([]mc.Found, map[string]interface{}) {
	summary := map[string]interface{}{
		"what": "free-running pass of the same bodies (4 real controllers, active-job store, mutators, config manager over client-go fakes, real goroutines) under go test -race; sampled, auxiliary: it backs the explorer's scheduling-point assumption and decides nothing alone",
	}
	runs := 3
	args := []string{"test", "-race", "-tags", "verif", "-vet=off", "-count", fmt.Sprint(runs), "-run", "TestFreeRunning", "-v"}
	if ov := os.Getenv("VERIF_OVERLAY"); ov != "" {
		args = append(args, "-overlay", ov)
	}
	args = append(args, "./internal/racepass")
	cmd := exec.Command("go", args...)
	cmd.Env = append(os.Environ(), "GORACE=halt_on_error=0")
	start := time.Now()
	out, err := cmd.CombinedOutput()
	text := string(out)
	summary["wall_s"] = time.Since(start).Seconds()
	summary["runs"] = runs
	var lines []string
	for _, l := range strings.Split(text, "\n") {
		if i := strings.Index(l, "RACEPASS "); i >= 0 {
			lines = append(lines, strings.TrimSpace(l[i:]))
		}
	}
	summary["workload"] = lines
	blocks := strings.Split(text, "WARNING: DATA RACE")[1:]
	summary["race_reports_total"] = len(blocks)
	if len(blocks) == 0 && err != nil && !strings.Contains(text, "--- FAIL") && !strings.Contains(text, "--- PASS") {
		// did not build or run: no verdict from this pass
		summary["error"] = tail(text, 600)
		fmt.Printf("RACE-PASS did not run: %s\n", tail(text, 300))
		return nil, summary
	}
	var found []mc.Found
	seen := map[string]bool{}
	var others []string
	for _, b := range blocks {
		b = strings.SplitN(b, "==================", 2)[0]
		owner, sites := raceOwner(b)
		key := strings.Join(sites, " || ")
		if seen[key] {
			continue
		}
		seen[key] = true
		if owner != prop {
			others = append(others, fmt.Sprintf("%s: %s", owner, key))
			continue
		}
		feat := []string{}
		for _, s := range sites {
			if f := strings.Fields(s); len(f) > 0 {
				feat = append(feat, "race:"+f[len(f)-1])
			}
		}
		sort.Strings(feat)
		found = append(found, mc.Found{
			Violation: mc.Violation{Property: prop, Monitor: "data-race", Features: feat,
				Detail: "unsynchronised accesses from two goroutines (" + key + ")\nWARNING: DATA RACE" + b},
			Scenario: "racepass/free-running",
		})
	}
	sort.Strings(others)
	summary["reports_owned_by_other_properties"] = others
	summary["reports_owned"] = len(found)
	return found, summary
}

func tail(s string, n int) string {
	if len(s) > n {
		return s[len(s)-n:]
	}
	return s
}

// writeRaceReport stores a race report as the replay artefact (the schedule is
// the detector's two stacks; re-run `go test -race ./internal/racepass`).
func writeRaceReport(dir string, f mc.Found) string {
	_ = os.MkdirAll(dir, 0o755)
	h := sha1.Sum([]byte(strings.Join(f.Features, ",")))
	path := filepath.Join(dir, fmt.Sprintf("data-race-%x.txt", h[:4]))
	_ = os.WriteFile(path, []byte("reproduce: cd /verif && go test -race -tags verif -vet=off -count=3 -run TestFreeRunning ./internal/racepass\n\n"+f.Detail+"\n"), 0o644)
	return path
}
