package main

import (
	"encoding/json"
	"flag"
	"fmt"
	"os"
	"strings"
	"time"

	"k8s.io/klog/v2"

	"verif/internal/mc"
	"verif/internal/pure"
	"verif/internal/worlds"
)

// cmdReplay re-executes a recorded trace on a fresh world, without the
// explorer, n times; exit 1 iff the recorded violation reproduces every time.
func cmdReplay(args []string) int {
	fs := flag.NewFlagSet("replay", flag.ExitOnError)
	n := fs.Int("n", 1, "repetitions")
	quiet := fs.Bool("q", false, "quiet")
	dump := fs.Bool("dump", false, "dump state after every step")
	_ = fs.Parse(args)
	if fs.NArg() < 1 {
		fmt.Fprintln(os.Stderr, "usage: mc replay [-n N] [-q] <file>")
		return 2
	}
	klog.SetOutput(devNull{})
	klog.LogToStderr(false)
	raw, err := os.ReadFile(fs.Arg(0))
	if err != nil {
		fmt.Fprintln(os.Stderr, err)
		return 2
	}
	var rf replayFile
	if err := json.Unmarshal(raw, &rf); err != nil {
		fmt.Fprintln(os.Stderr, err)
		return 2
	}
	wantProp, wantMon := rf.Property, rf.Monitor
	if rf.MatchMonitor != "" {
		wantProp, wantMon = rf.MatchProperty, rf.MatchMonitor
	}
	reproduced := 0
	for i := 0; i < *n; i++ {
		ok := false
		if rf.Unit.Kind == "pure" {
			res := pure.Run(*rf.Unit.Pure, time.Time{})
			for _, f := range res.Found {
				if f.Monitor == rf.Monitor {
					ok = true
					if !*quiet && i == 0 {
						fmt.Printf("reproduced: %s/%s: %s\n", f.Property, f.Monitor, f.Detail)
					}
				}
			}
		} else {
			w := worlds.Factory(*rf.Unit.Scenario)()
			report := func(step string, vs []mc.Violation) {
				for _, v := range vs {
					if v.Property == wantProp && v.Monitor == wantMon {
						ok = true
					}
					if !*quiet && i == 0 {
						fmt.Printf("    !! %s/%s %v: %s\n", v.Property, v.Monitor, v.Features, v.Detail)
					}
				}
			}
			report("init", w.TakeViolations())
			for si, a := range rf.Trace {
				enabled := w.Enabled()
				base := a
				if j := strings.IndexByte(a, '!'); j >= 0 {
					base = a[:j]
				}
				if strings.HasPrefix(base, "work:") {
					if j := strings.LastIndexByte(base, '@'); j >= 0 {
						base = base[:j]
					}
				}
				found := false
				for _, e := range enabled {
					if e == base {
						found = true
					}
				}
				if !found {
					// The recorded violation may already have reproduced before this point
					// (e.g. code under test that consults an unowned source of nondeterminism).
					if !*quiet && i == 0 {
						fmt.Printf("replay diverged at step %d: %q not enabled (enabled: %v)\n", si, a, enabled)
					}
					break
				}
				if !*quiet && i == 0 {
					fmt.Printf("%3d %s\n", si, a)
				}
				w.Apply(a)
				if d, ok := w.(interface{ DumpJSON() string }); ok && *dump && i == 0 {
					fmt.Println(d.DumpJSON())
				}
				if c, ok := w.(interface{ CallsString() string }); ok && !*quiet && i == 0 {
					if s := c.CallsString(); s != "" {
						fmt.Printf("      calls: %s\n", s)
					}
				}
				report(a, w.TakeViolations())
			}
		}
		if ok {
			reproduced++
		}
	}
	if !*quiet {
		fmt.Printf("reproduced %d/%d\n", reproduced, *n)
	}
	if reproduced == *n {
		return 1
	}
	if reproduced == 0 {
		return 0
	}
	return 3
}

// cmdTrace runs an explicit action list on a scenario of a property and prints what happens (debugging aid).
// usage: mc trace <property> <tier> <scenario-id> action...
func cmdTrace(args []string) int {
	klog.SetOutput(devNull{})
	klog.LogToStderr(false)
	prop, tier, id := args[0], args[1], args[2]
	for _, s := range worlds.ScenariosFor(prop, tier) {
		if s.ID != id {
			continue
		}
		w := worlds.Factory(s)()
		fmt.Println("enabled:", w.Enabled())
		for _, a := range args[3:] {
			w.Apply(a)
			fmt.Println(">>", a)
			if c, ok := w.(interface{ CallsString() string }); ok {
				if s := c.CallsString(); s != "" {
					fmt.Println("   calls:", s)
				}
			}
			for _, v := range w.TakeViolations() {
				fmt.Printf("   !! %s/%s %v: %s\n", v.Property, v.Monitor, v.Features, v.Detail)
			}
			fmt.Println("   enabled:", w.Enabled())
		}
		if d, ok := w.(interface{ DumpJSON() string }); ok {
			fmt.Println(d.DumpJSON())
		}
		return 0
	}
	fmt.Fprintln(os.Stderr, "scenario not found")
	return 2
}
