// Package mc is the explicit-state explorer: breadth-first search over the
// real furiko code closed by the simulated environment of package sim.
// Successor states are computed by replaying the shortest action path on a
// freshly constructed world (live controller objects cannot be cloned).
package mc

import (
	"fmt"
	"sort"
	"strings"
	"time"
)

// Violation of a property observed by a monitor.
type Violation struct {
	Property string   `json:"property"`
	Monitor  string   `json:"monitor"`
	Detail   string   `json:"detail"`
	Features []string `json:"features,omitempty"`
}

// World is one closed system instance. It is always built from scratch by a
// Factory and driven only through Apply.
type World interface {
	// Enabled returns the enabled actions in canonical order.
	Enabled() []string
	// Apply executes one action on the real code.
	Apply(action string)
	// Variants returns the fault/crash variants of the action just applied
	// (same pre-state, one API call of the step failing), if budget remains.
	Variants(action string) []string
	// Key is the canonical state hash.
	Key() string
	// TakeViolations returns and clears violations raised since the last call
	// (write monitors, state invariants, quiescence predicates).
	TakeViolations() []Violation
	// IsSystem says whether the action is a system (non-environment,
	// non-clock) transition; used for quiescence and livelock analysis.
	IsSystem(action string) bool
	// Outcome is a short canonical description of a quiescent state used to
	// count distinct outcomes; "" if not meaningful.
	Outcome() string
	// Counters returns monitor evaluation counters (cumulative for this world).
	Counters() map[string]int
	// Close releases resources.
	Close()
}

// Factory builds a fresh world in its initial state.
type Factory func() World

// Found is a violation together with the trace that exhibits it.
type Found struct {
	Violation
	Scenario string   `json:"scenario"`
	Trace    []string `json:"trace"`
}

// Options bound a search.
type Options struct {
	MaxStates        int                    // stop expanding when this many states are known (0 = unlimited)
	MaxDepth         int                    // do not expand states deeper than this (0 = unlimited)
	Deadline         time.Time              // wall-clock cap (zero = none)
	StopOnFirst      bool                   // stop at the first violation of a deciding monitor
	Livelock         bool                   // run the bottom-SCC livelock analysis
	KeepSamples      int                    // number of sample traces to keep
	Validate         bool                   // replay validation of every expanded state (always on in checks)
	Decides          func(v Violation) bool // which violations stop / count
	LivelockProperty string                 // property id livelocks are reported under
	ValidateEvery    int                    // snapshot mode: replay-validate every n-th expanded state (default 4)
	NoSnapshots      bool                   // force replay mode
	PanicProperty    string                 // property id a panic of the code under test is reported under
}

// Result of one scenario exploration.
type Result struct {
	Scenario    string         `json:"scenario"`
	States      int            `json:"states"`
	Transitions int            `json:"transitions"`
	Replays     int            `json:"replays_validated"`
	Steps       int            `json:"steps_executed"`
	MaxDepth    int            `json:"max_depth"`
	Quiescent   int            `json:"quiescent_states"`
	Outcomes    map[string]int `json:"outcomes"`
	Exhaustive  bool           `json:"exhaustive"`
	CapHit      string         `json:"cap_hit,omitempty"`
	Found       []Found        `json:"found,omitempty"`
	Counters    map[string]int `json:"counters"`
	Samples     [][]string     `json:"samples,omitempty"`
	WallS       float64        `json:"wall_s"`
	Nondet      string         `json:"nondeterminism,omitempty"`
	ActionKinds map[string]int `json:"action_kinds"`
	Mode        string         `json:"mode,omitempty"`
	// Pure enumerations.
	Evaluations        int           `json:"evaluations,omitempty"`
	DistinctNontrivial int           `json:"distinct_nontrivial,omitempty"`
	InputSamples       []interface{} `json:"input_samples,omitempty"`
}

type node struct {
	path     []string
	depth    int
	expanded bool
	snap     interface{}
}

// Snapshotter is implemented by worlds whose whole state can be captured and
// restored in place; the explorer then avoids replaying paths for successor
// computation and validates states by replay at the rate Options.ValidateEvery.
type Snapshotter interface {
	Snapshot() interface{}
	Restore(interface{})
}

// Explore runs a breadth-first search from the initial state of factory.
func Explore(scenario string, factory Factory, opt Options) Result {
	start := time.Now()
	res := Result{Scenario: scenario, Outcomes: map[string]int{}, Counters: map[string]int{}, ActionKinds: map[string]int{}, Exhaustive: true}
	if opt.Decides == nil {
		opt.Decides = func(Violation) bool { return true }
	}
	nodes := map[string]*node{}
	sysEdges := map[string][]string{} // system-transition graph for livelock analysis
	hasSysOut := map[string]bool{}
	seenViol := map[string]bool{}

	replay := func(path []string) World {
		w := factory()
		for _, a := range path {
			w.Apply(a)
			res.Steps++
		}
		return w
	}
	record := func(vs []Violation, trace []string) bool {
		stop := false
		for _, v := range vs {
			id := v.Property + "/" + v.Monitor + "/" + strings.Join(v.Features, ",")
			if seenViol[id] {
				continue
			}
			seenViol[id] = true
			res.Found = append(res.Found, Found{Violation: v, Scenario: scenario, Trace: append([]string(nil), trace...)})
			if opt.Decides(v) && opt.StopOnFirst {
				stop = true
			}
		}
		return stop
	}

	w0 := factory()
	k0 := w0.Key()
	if record(w0.TakeViolations(), nil) {
		w0.Close()
		res.States = 1
		res.WallS = time.Since(start).Seconds()
		return res
	}
	nodes[k0] = &node{path: nil, depth: 0}
	frontier := []string{k0}
	var live World
	var liveSnap Snapshotter
	if sn, ok := w0.(Snapshotter); ok && !opt.NoSnapshots {
		if s0 := sn.Snapshot(); s0 != nil {
			live, liveSnap = w0, sn
			nodes[k0].snap = s0
		}
	}
	if live == nil {
		w0.Close()
	}
	res.Mode = "replay"
	if live != nil {
		res.Mode = "snapshot"
	}
	if opt.ValidateEvery <= 0 {
		opt.ValidateEvery = 4
	}
	expandedCount := 0

	stopAll := false
	for len(frontier) > 0 && !stopAll {
		var next []string
		for _, key := range frontier {
			if stopAll {
				break
			}
			n := nodes[key]
			if opt.MaxDepth > 0 && n.depth >= opt.MaxDepth {
				res.Exhaustive = false
				res.CapHit = fmt.Sprintf("depth %d", opt.MaxDepth)
				continue
			}
			if !opt.Deadline.IsZero() && time.Now().After(opt.Deadline) {
				res.Exhaustive = false
				res.CapHit = "deadline"
				stopAll = true
				break
			}
			if opt.MaxStates > 0 && len(nodes) >= opt.MaxStates {
				res.Exhaustive = false
				res.CapHit = fmt.Sprintf("states %d", opt.MaxStates)
				stopAll = true
				break
			}
			// Replay the path and validate determinism.
			expandedCount++
			var w World
			if live == nil || expandedCount%opt.ValidateEvery == 1 || opt.ValidateEvery == 1 {
				w = replay(n.path)
				if got := w.Key(); got != key {
					res.Nondet = fmt.Sprintf("replay of %v gave key %s, stored %s", n.path, got[:12], key[:12])
					w.Close()
					res.Exhaustive = false
					res.States = len(nodes)
					res.WallS = time.Since(start).Seconds()
					return res
				}
				w.TakeViolations()
				res.Replays++
			}
			if live != nil {
				if w != nil {
					w.Close()
				}
				liveSnap.Restore(n.snap)
				w = live
			}
			n.expanded = true
			actions := w.Enabled()
			sysEnabled := false
			for _, a := range actions {
				if w.IsSystem(a) {
					sysEnabled = true
				}
			}
			if !sysEnabled {
				res.Quiescent++
				if o := w.Outcome(); o != "" {
					res.Outcomes[o]++
				}
			}
			// Work list of actions; variants are appended as they are discovered.
			queue := append([]string(nil), actions...)
			isVariant := map[string]bool{}
			for qi := 0; qi < len(queue); qi++ {
				a := queue[qi]
				var sw World
				switch {
				case live != nil:
					if qi > 0 {
						liveSnap.Restore(n.snap)
					}
					sw = live
				case qi == 0:
					sw = w
				default:
					sw = replay(n.path)
					sw.TakeViolations()
				}
				before := copyCounters(sw.Counters())
				if msg := safeApply(sw, a); msg != "" {
					// A panic inside the code under test is a finding, not a tool error. The
					// world may be poisoned, so the search stops here.
					prop := opt.PanicProperty
					if prop == "" {
						prop = "C20"
					}
					res.Found = append(res.Found, Found{Violation: Violation{Property: prop, Monitor: "panic", Detail: msg}, Scenario: scenario, Trace: append(append([]string(nil), n.path...), a)})
					res.Exhaustive = false
					res.CapHit = "panic"
					stopAll = true
					break
				}
				res.Steps++
				res.Transitions++
				res.ActionKinds[actionKind(a)]++
				sk := sw.Key()
				vs := sw.TakeViolations()
				trace := append(append([]string(nil), n.path...), a)
				if !isVariant[a] {
					for _, v := range sw.Variants(a) {
						if !isVariant[v] {
							isVariant[v] = true
							queue = append(queue, v)
						}
					}
				}
				if sw.IsSystem(a) {
					sysEdges[key] = append(sysEdges[key], sk)
					hasSysOut[key] = true
				}
				for k, v := range sw.Counters() {
					res.Counters[k] += v - before[k]
				}
				var ssnap interface{}
				if live != nil {
					if _, known := nodes[sk]; !known {
						ssnap = liveSnap.Snapshot()
					}
				} else {
					sw.Close()
				}
				if len(vs) > 0 {
					if record(vs, trace) {
						stopAll = true
						break
					}
					// Do not expand beyond a violating transition.
					decided := false
					for _, v := range vs {
						if opt.Decides(v) {
							decided = true
						}
					}
					if decided {
						if _, ok := nodes[sk]; !ok {
							nodes[sk] = &node{path: trace, depth: n.depth + 1, expanded: true}
						}
						continue
					}
				}
				if _, ok := nodes[sk]; !ok {
					nodes[sk] = &node{path: trace, depth: n.depth + 1, snap: ssnap}
					next = append(next, sk)
					if n.depth+1 > res.MaxDepth {
						res.MaxDepth = n.depth + 1
					}
					if len(res.Samples) < opt.KeepSamples && (len(nodes)%97 == 1 || !sysEnabled) {
						res.Samples = append(res.Samples, trace)
					}
				}
			}
			if len(actions) == 0 && live == nil {
				w.Close()
			}
			n.snap = nil
		}
		frontier = next
	}
	res.States = len(nodes)

	if opt.Livelock && res.Exhaustive {
		for _, f := range livelocks(nodes, sysEdges) {
			if opt.LivelockProperty != "" {
				f.Property = opt.LivelockProperty
			}
			res.Found = append(res.Found, Found{Violation: f.Violation, Scenario: scenario, Trace: f.Trace})
		}
	}
	res.WallS = time.Since(start).Seconds()
	return res
}

func safeApply(w World, a string) (msg string) {
	defer func() {
		if r := recover(); r != nil {
			msg = fmt.Sprintf("the code under test panicked on %q: %v", a, r)
		}
	}()
	w.Apply(a)
	return ""
}

func copyCounters(m map[string]int) map[string]int {
	out := make(map[string]int, len(m))
	for k, v := range m {
		out[k] = v
	}
	return out
}

func actionKind(a string) string {
	if strings.HasPrefix(a, "work:") && strings.Contains(a, "@") {
		return "work@preempt"
	}
	if i := strings.IndexByte(a, '!'); i >= 0 {
		rest := a[i+1:]
		if j := strings.LastIndexByte(rest, '='); j >= 0 {
			return strings.SplitN(a, ":", 2)[0] + "!" + rest[j+1:]
		}
	}
	return strings.SplitN(a, ":", 2)[0]
}

// livelocks finds bottom strongly connected components of the system-only
// transition graph that contain a cycle: once inside, the system can take
// system transitions forever and can never become quiescent, whatever the
// scheduler does (no environment or clock step is needed to stay inside).
func livelocks(nodes map[string]*node, edges map[string][]string) []Found {
	// Tarjan SCC, iterative.
	index := map[string]int{}
	low := map[string]int{}
	onStack := map[string]bool{}
	var stack []string
	comp := map[string]int{}
	ncomp := 0
	idx := 0
	keys := make([]string, 0, len(nodes))
	for k := range nodes {
		keys = append(keys, k)
	}
	sort.Strings(keys)
	type frame struct {
		v string
		i int
	}
	for _, root := range keys {
		if _, ok := index[root]; ok {
			continue
		}
		callStack := []frame{{root, 0}}
		index[root], low[root] = idx, idx
		idx++
		stack = append(stack, root)
		onStack[root] = true
		for len(callStack) > 0 {
			f := &callStack[len(callStack)-1]
			succ := edges[f.v]
			if f.i < len(succ) {
				wv := succ[f.i]
				f.i++
				if _, ok := index[wv]; !ok {
					index[wv], low[wv] = idx, idx
					idx++
					stack = append(stack, wv)
					onStack[wv] = true
					callStack = append(callStack, frame{wv, 0})
				} else if onStack[wv] {
					if index[wv] < low[f.v] {
						low[f.v] = index[wv]
					}
				}
				continue
			}
			if low[f.v] == index[f.v] {
				for {
					x := stack[len(stack)-1]
					stack = stack[:len(stack)-1]
					onStack[x] = false
					comp[x] = ncomp
					if x == f.v {
						break
					}
				}
				ncomp++
			}
			v := f.v
			callStack = callStack[:len(callStack)-1]
			if len(callStack) > 0 {
				p := callStack[len(callStack)-1].v
				if low[v] < low[p] {
					low[p] = low[v]
				}
			}
		}
	}
	members := map[int][]string{}
	for k, c := range comp {
		members[c] = append(members[c], k)
	}
	var out []Found
	cids := make([]int, 0, len(members))
	for c := range members {
		cids = append(cids, c)
	}
	sort.Ints(cids)
	for _, c := range cids {
		ms := members[c]
		cyclic := len(ms) > 1
		bottom := true
		allExpanded := true
		for _, m := range ms {
			if n := nodes[m]; n == nil || !n.expanded {
				allExpanded = false
			}
			for _, s := range edges[m] {
				if s == m {
					cyclic = true
				}
				if comp[s] != c {
					bottom = false
				}
			}
		}
		if !cyclic || !bottom || !allExpanded {
			continue
		}
		sort.Slice(ms, func(i, j int) bool { return nodes[ms[i]].depth < nodes[ms[j]].depth })
		out = append(out, Found{
			Violation: Violation{Property: "C20", Monitor: "livelock",
				Detail: fmt.Sprintf("system transitions cycle forever among %d state(s) without ever becoming quiescent", len(ms))},
			Trace: nodes[ms[0]].path,
		})
	}
	return out
}
