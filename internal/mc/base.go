package mc

import (
	"bytes"
	"context"
	"crypto/sha256"
	"encoding/hex"
	"encoding/json"
	"fmt"
	"os"
	"regexp"
	"sort"
	"strconv"
	"strings"
	"time"

	"k8s.io/apimachinery/pkg/runtime"
	fakeclock "k8s.io/utils/clock/testing"

	configv1alpha1 "github.com/furiko-io/furiko/apis/config/v1alpha1"
	"github.com/furiko-io/furiko/pkg/execution/controllers/croncontroller"
	"github.com/furiko-io/furiko/pkg/execution/mutation"
	"github.com/furiko-io/furiko/pkg/execution/validation"
	"github.com/furiko-io/furiko/pkg/utils/ktime"

	"verif/internal/sim"
)

// Worker is anything that processes exactly one chosen key of a queue
// (reconciler.Controller.VerifWork).
type Worker interface {
	VerifWork(ctx context.Context) bool
}

// Budget bounds the deviations of a scenario.
type Budget struct {
	Lag     int `json:"lag"`     // max undelivered events while a non-deliver step runs
	Faults  int `json:"faults"`  // max injected API faults per execution
	Crashes int `json:"crashes"` // max crashes/restarts per execution
	Preempt int `json:"preempt"` // max preemptions (a pending event delivered in the middle of a sync) per execution
}

// Base is the part of a world shared by all controller worlds.
type Base struct {
	Clock    *fakeclock.FakeClock
	API      *sim.API
	Webhooks *sim.Webhooks
	Ctx      *sim.Context
	Configs  map[configv1alpha1.ConfigName]runtime.Object

	Budget      Budget
	FaultsUsed  int
	CrashesUsed int
	FaultKinds  func(c sim.Call) []sim.FaultKind

	// queues and their workers, canonical order
	QueueNames []string
	Queues     map[string]*sim.Queue
	Workers    map[string]Worker

	// world-specific hooks
	Build      func(b *Base)        // (re)creates controllers on b.Ctx; registers queues/workers
	EnvEnabled func() []string      // environment actions (only offered while lag <= budget)
	EnvApply   func(action string)  // applies an environment action
	Deadlines  func() []time.Time   // interesting instants besides queue timers
	ExtraKey   func() interface{}   // world-specific part of the state key
	CheckState func(quiescent bool) // state invariants / quiescence predicates
	OutcomeFn  func() string
	AfterStep  func(action string) // bookkeeping after every step
	// ClockNeedsQuiet: only advance the clock when no system action is enabled.
	ClockNeedsQuiet bool
	// Horizon bounds simulated time (0 = unbounded): the clock never advances beyond Epoch+Horizon.
	Horizon time.Duration
	// Preemption points: the world calls Point() at synchronisation operations inside a sync
	// (store counter reads/CAS, see DESIGN.md 2.1). PreemptAt selects the point at which one
	// pending event of PreemptResource is delivered before the sync continues.
	PreemptsUsed    int
	PreemptAt       int
	PreemptResource string
	pointCount      int
	pendingAtStart  int
	// ResyncMode: after any activity, once the system is otherwise quiet, exactly one informer
	// resync round happens (a system transition) before the state counts as quiescent.
	ResyncMode    bool
	ResyncPending bool
	// ColdStart: after a restart every informer lists on its own (transition "sync:<resource>"):
	// its cache fills and its handlers see the initial Adds while the caches of the resources
	// that have not listed yet are still empty. Workers, stores' recovery and everything else
	// registered with WhenSynced wait until all have listed (WaitForCacheSync). Replay mode only.
	ColdStart     bool
	ColdResources []string
	Unsynced      []string
	afterSync     []func()
	// Tombstones: every deletion reaches the handlers as a DeletedFinalStateUnknown tombstone.
	Tombstones bool
	// Property is the property being checked (set by the scenario factory).
	Property string
	// FaultLog lists the injected faults of this history as features ("fault:update/jobs/status=conflict").
	FaultLog []string
	// StaticFeatures are scenario-level features (e.g. "foreign-pod").
	StaticFeatures []string
	// StaleSeen is sticky: resources that were stale during some work step of this history.
	StaleSeen map[string]bool

	// Snap configures snapshot/restore support.
	Snap snapHooks

	viols    []Violation
	counters map[string]int
	calls    []sim.Call
	// StaleAtWork records, for the last work step, which resources had undelivered events.
	LastStale []string
	// Restarts counts rebuilds.
	Restarts int
}

// NewBase creates the clock, API and webhook process and installs the clock
// into every package-level clock of furiko.
func NewBase(cfgs map[configv1alpha1.ConfigName]runtime.Object, withWebhooks bool) *Base {
	b := &Base{
		Clock:     sim.NewClock(),
		Configs:   cfgs,
		Queues:    map[string]*sim.Queue{},
		Workers:   map[string]Worker{},
		counters:  map[string]int{},
		StaleSeen: map[string]bool{},
	}
	b.InstallClock()
	b.API = sim.NewAPI(b.Clock)
	if withWebhooks {
		b.Webhooks = sim.NewWebhooks(b.API, cfgs)
		b.API.Admit = b.Webhooks.Admit
	}
	return b
}

// Start builds the controller process for the first time.
func (b *Base) Start() {
	b.Ctx = sim.NewContext(b.API, "ctrl", false, b.Configs)
	b.applyTombstones()
	b.Build(b)
}

func (b *Base) applyTombstones() {
	for _, inf := range b.Ctx.Set.All() {
		inf.Tombstones = b.Tombstones
	}
}

// Restart discards all in-memory controller state and rebuilds from the API.
func (b *Base) Restart() {
	b.API.ResetWatchers(func(i *sim.Informer) bool { return i.Fresh })
	b.QueueNames = nil
	b.Queues = map[string]*sim.Queue{}
	b.Workers = map[string]Worker{}
	b.Restarts++
	b.afterSync = nil
	if b.ColdStart {
		b.Ctx = sim.NewColdContext(b.API, "ctrl", b.Configs)
		b.Unsynced = append([]string(nil), b.ColdResources...)
		if len(b.Unsynced) == 0 {
			b.Unsynced = []string{sim.JobConfigs, sim.Jobs, sim.Pods}
		}
		// resources outside ColdResources list at once
		for _, inf := range b.Ctx.Set.All() {
			if !contains(b.Unsynced, inf.Resource) {
				b.API.Watch(inf)
				inf.SyncFrom(b.API.List(inf.Resource))
			}
		}
	} else {
		b.Ctx = sim.NewContext(b.API, "ctrl", false, b.Configs)
	}
	b.applyTombstones()
	b.Build(b)
}

func contains(list []string, s string) bool {
	for _, x := range list {
		if x == s {
			return true
		}
	}
	return false
}

// WhenSynced runs f once every informer has listed: immediately, except during a cold start.
func (b *Base) WhenSynced(f func()) {
	if len(b.Unsynced) > 0 {
		b.afterSync = append(b.afterSync, f)
		return
	}
	f()
}

// AddQueue registers a queue and its worker.
func (b *Base) AddQueue(name string, w Worker) *sim.Queue {
	q := sim.NewQueue(name, b.Clock)
	b.QueueNames = append(b.QueueNames, name)
	b.Queues[name] = q
	b.Workers[name] = w
	return q
}

// SetWorker sets the worker of a queue after construction.
func (b *Base) SetWorker(name string, w Worker) { b.Workers[name] = w }

// Violate records a violation.
func (b *Base) Violate(property, monitor, detail string, features ...string) {
	sort.Strings(features)
	b.viols = append(b.viols, Violation{Property: property, Monitor: monitor, Detail: detail, Features: features})
}

// Count increments a monitor evaluation counter.
func (b *Base) Count(name string) { b.counters[name]++ }

func (b *Base) Counters() map[string]int { return b.counters }

func (b *Base) TakeViolations() []Violation {
	v := b.viols
	b.viols = nil
	return v
}

func (b *Base) Close() {}

func (b *Base) Outcome() string {
	if b.OutcomeFn != nil {
		return b.OutcomeFn()
	}
	return ""
}

// SetProperty names the property whose check runs this world (generic monitors report under it).
func (b *Base) SetProperty(p string) { b.Property = p }

// Now returns the simulated time.
func (b *Base) Now() time.Time { return b.Clock.Now() }

// Offset returns simulated seconds since the epoch.
func (b *Base) Offset() float64 { return b.Clock.Now().Sub(sim.Epoch).Seconds() }

func (b *Base) IsSystem(a string) bool {
	return strings.HasPrefix(a, "deliver:") || strings.HasPrefix(a, "work:") || strings.HasPrefix(a, "listener:") || strings.HasPrefix(a, "sync:") || a == "resync"
}

func (b *Base) systemActions() []string {
	var out []string
	if len(b.Unsynced) > 0 {
		for _, r := range b.Unsynced {
			out = append(out, "sync:"+r)
		}
		return out
	}
	pending := b.Ctx.Set.PendingTotal()
	for _, inf := range b.Ctx.Set.All() {
		if inf.Pending() > 0 {
			out = append(out, "deliver:"+inf.Resource)
		}
	}
	for _, inf := range b.Ctx.Set.All() {
		for _, idx := range inf.LaggingListeners() {
			out = append(out, fmt.Sprintf("listener:%s:%d", inf.Resource, idx))
		}
	}
	if pending <= b.Budget.Lag {
		for _, qn := range b.QueueNames {
			for _, k := range b.Queues[qn].Ready() {
				out = append(out, "work:"+qn+":"+k)
			}
		}
	}
	if len(out) == 0 && b.ResyncMode && b.ResyncPending {
		out = append(out, "resync")
	}
	return out
}

// SystemQuiescent reports whether no system action is enabled.
func (b *Base) SystemQuiescent() bool { return len(b.systemActions()) == 0 }

func (b *Base) nextInstant() (time.Time, bool) {
	now := b.Now()
	var min time.Time
	consider := func(t time.Time) {
		if t.After(now) && (min.IsZero() || t.Before(min)) {
			min = t
		}
	}
	for _, qn := range b.QueueNames {
		for _, due := range b.Queues[qn].Delayed() {
			consider(due)
		}
	}
	if b.Deadlines != nil {
		for _, t := range b.Deadlines() {
			consider(t)
		}
	}
	return min, !min.IsZero()
}

func (b *Base) Enabled() []string {
	out := b.systemActions()
	if len(b.Unsynced) > 0 {
		return out // nothing else happens before the caches have synced
	}
	pending := b.Ctx.Set.PendingTotal()
	if pending <= b.Budget.Lag {
		if b.EnvEnabled != nil {
			out = append(out, b.EnvEnabled()...)
		}
		if b.CrashesUsed < b.Budget.Crashes {
			out = append(out, "restart")
		}
	}
	if pending == 0 && (!b.ClockNeedsQuiet || len(b.systemActions()) == 0) {
		if t, ok := b.nextInstant(); ok && (b.Horizon == 0 || !t.After(sim.Epoch.Add(b.Horizon))) {
			out = append(out, "clock")
		}
	}
	return out
}

// HasFuture reports whether some interesting instant lies ahead (even beyond the horizon).
func (b *Base) HasFuture() bool {
	_, ok := b.nextInstant()
	return ok
}

// Features returns the deviation features of the history so far.
func (b *Base) Features() []string {
	var f []string
	for r := range b.StaleSeen {
		f = append(f, "stale:"+r)
	}
	f = append(f, b.FaultLog...)
	if b.FaultsUsed > 0 {
		f = append(f, "fault")
	}
	if b.CrashesUsed > 0 {
		f = append(f, "crash")
	}
	if b.PreemptsUsed > 0 {
		f = append(f, "preempt")
	}
	if b.FaultsUsed+b.CrashesUsed >= 2 {
		f = append(f, "deviations>=2")
	}
	f = append(f, b.StaticFeatures...)
	sort.Strings(f)
	return f
}

// Apply executes one action.
func (b *Base) Apply(action string) {
	versionBefore := b.API.Version()
	switch {
	case strings.HasPrefix(action, "deliver:"):
		res := strings.TrimPrefix(action, "deliver:")
		b.API.BeginStep(nil)
		if !b.Ctx.Set.ByResource(res).Deliver() {
			panic("deliver on empty FIFO: " + action)
		}
		b.calls = nil
	case strings.HasPrefix(action, "listener:"):
		parts := strings.Split(action, ":")
		idx, _ := strconv.Atoi(parts[2])
		b.API.BeginStep(nil)
		if !b.Ctx.Set.ByResource(parts[1]).DeliverListener(idx) {
			panic("listener without pending notification: " + action)
		}
		b.calls = nil
	case action == "resync":
		b.API.BeginStep(nil)
		for _, inf := range b.Ctx.Set.All() {
			inf.Resync()
		}
		b.calls = nil
	case strings.HasPrefix(action, "sync:"):
		res := strings.TrimPrefix(action, "sync:")
		if !contains(b.Unsynced, res) {
			panic("sync of a synced resource: " + action)
		}
		b.API.BeginStep(nil)
		inf := b.Ctx.Set.ByResource(res)
		b.API.Watch(inf)
		inf.SyncFrom(b.API.List(res))
		var rest []string
		for _, r := range b.Unsynced {
			if r != res {
				rest = append(rest, r)
			}
		}
		b.Unsynced = rest
		if len(rest) == 0 {
			fs := b.afterSync
			b.afterSync = nil
			for _, f := range fs {
				f()
			}
		}
		b.calls = nil
	case strings.HasPrefix(action, "work:"):
		b.applyWork(action)
	case action == "restart":
		b.CrashesUsed++
		b.API.BeginStep(nil)
		b.Restart()
		b.calls = nil
	case action == "clock":
		t, ok := b.nextInstant()
		if !ok {
			panic("clock: no next instant")
		}
		b.API.BeginStep(nil)
		b.Clock.SetTime(t)
		for _, qn := range b.QueueNames {
			b.Queues[qn].Promote()
		}
		b.calls = nil
	default:
		b.API.BeginStep(nil)
		b.EnvApply(action)
		b.calls = nil
	}
	// A resync round is owed after anything that changes the world: environment and clock
	// steps, and syncs that changed something in the API. Deliveries and the resync's own
	// no-op syncs (including writes that change nothing) do not re-arm it (otherwise the round
	// would repeat forever).
	switch {
	case action == "resync":
		b.ResyncPending = false
	case !b.IsSystem(action), strings.HasPrefix(action, "work:") && b.API.Version() != versionBefore:
		b.ResyncPending = true
	}
	// Objects in an informer cache are shared by everybody in the process: whoever needs to change
	// one must work on a copy. Checked after every step of the controller.
	if strings.HasPrefix(action, "work:") {
		for _, inf := range b.Ctx.Set.All() {
			if keys := inf.MutatedKeys(); len(keys) > 0 {
				b.Violate(b.Property, "cache-object-mutated", fmt.Sprintf("%s changed the informer-cache copy of %s %v in place", action, inf.Resource, keys), b.Features()...)
			}
		}
	}
	if b.AfterStep != nil {
		b.AfterStep(action)
	}
	if b.CheckState != nil {
		b.CheckState(b.SystemQuiescent())
	}
}

func (b *Base) applyWork(action string) {
	body := strings.TrimPrefix(action, "work:")
	var faults map[string]sim.FaultKind
	if i := strings.IndexByte(body, '!'); i >= 0 {
		spec := body[i+1:]
		body = body[:i]
		j := strings.LastIndexByte(spec, '=')
		faults = map[string]sim.FaultKind{spec[:j]: sim.FaultKind(spec[j+1:])}
		if sim.FaultKind(spec[j+1:]) == sim.FaultCrash {
			b.CrashesUsed++
		} else {
			b.FaultsUsed++
			b.FaultLog = append(b.FaultLog, faultFeature(spec[:j], spec[j+1:]))
			sort.Strings(b.FaultLog)
		}
	}
	b.PreemptAt = 0
	if i := strings.LastIndexByte(body, '@'); i >= 0 {
		n, err := strconv.Atoi(body[i+1:])
		if err != nil {
			panic("bad preemption suffix in " + action)
		}
		b.PreemptAt = n
		b.PreemptsUsed++
		body = body[:i]
	}
	b.pointCount = 0
	parts := strings.SplitN(body, ":", 2)
	qn, key := parts[0], parts[1]
	q := b.Queues[qn]
	if q == nil {
		panic("unknown queue " + qn)
	}
	b.LastStale = nil
	pendingBefore := map[string]int{}
	for _, inf := range b.Ctx.Set.All() {
		pendingBefore[inf.Resource] = inf.Pending()
		if inf.Pending() > 0 {
			b.LastStale = append(b.LastStale, "stale:"+inf.Resource)
			b.StaleSeen[inf.Resource] = true
		}
	}
	b.pendingAtStart = 0
	if inf := b.Ctx.Set.ByResource(b.PreemptResource); inf != nil {
		b.pendingAtStart = inf.Pending()
	}
	b.API.BeginStep(faults)
	applied := b.API.FaultsApplied
	q.Choose(key)
	b.Workers[qn].VerifWork(context.Background())
	b.calls = b.API.Calls()
	if faults != nil && b.API.FaultsApplied == applied {
		panic(fmt.Sprintf("fault %v did not match any call of %s (calls %v)", faults, action, b.calls))
	}
	// Remove goroutine-order nondeterminism of concurrently issued Pod deletes.
	if inf := b.Ctx.Set.Pods; inf != nil {
		if n := inf.Pending() - pendingBefore[sim.Pods]; n > 1 {
			inf.SortPendingTail(n)
		}
	}
	if b.Webhooks != nil {
		if inf := b.Webhooks.Ctx.Set.Pods; inf != nil {
			_ = inf
		}
	}
	if b.API.Crashed() {
		b.Restart()
	}
}

// Point is a preemption point inside a work step.
func (b *Base) Point() {
	b.pointCount++
	if b.PreemptAt > 0 && b.pointCount == b.PreemptAt {
		if inf := b.Ctx.Set.ByResource(b.PreemptResource); inf != nil && inf.Pending() > 0 {
			inf.Deliver()
		}
	}
}

// faultFeature turns a call id (verb/resource/name[/sub]#n) and a fault kind into a feature.
func faultFeature(id, kind string) string {
	if i := strings.IndexByte(id, '#'); i >= 0 {
		id = id[:i]
	}
	parts := strings.Split(id, "/")
	out := parts[0] + "/" + parts[1]
	if len(parts) > 3 {
		out += "/" + parts[3]
	}
	return "fault:" + out + "=" + kind
}

// Calls returns the API calls of the last work step.
func (b *Base) Calls() []sim.Call { return b.calls }

// Variants returns the fault and crash variants of a just-applied work action.
func (b *Base) Variants(action string) []string {
	if !strings.HasPrefix(action, "work:") || strings.Contains(action, "!") || strings.Contains(action, "@") {
		return nil
	}
	var out []string
	if b.PreemptsUsed < b.Budget.Preempt && b.pendingAtStart > 0 {
		for i := 1; i <= b.pointCount; i++ {
			out = append(out, fmt.Sprintf("%s@%d", action, i))
		}
	}
	seen := map[string]bool{}
	for _, c := range b.calls {
		if seen[c.ID] {
			continue
		}
		seen[c.ID] = true
		if b.FaultsUsed < b.Budget.Faults {
			kinds := []sim.FaultKind{sim.FaultError, sim.FaultTimeout}
			if c.Verb == "update" {
				kinds = append(kinds, sim.FaultConflict)
			}
			if b.FaultKinds != nil {
				kinds = b.FaultKinds(c)
			}
			for _, k := range kinds {
				out = append(out, action+"!"+c.ID+"="+string(k))
			}
		}
		if b.CrashesUsed < b.Budget.Crashes {
			out = append(out, action+"!"+c.ID+"="+string(sim.FaultCrash))
		}
	}
	sort.Strings(out)
	return out
}

var rvRe = regexp.MustCompile(`"resourceVersion":"(\d+)"`)

type keyDump struct {
	Clock   int64                                 `json:"clock_ms"`
	Objects map[string]json.RawMessage            `json:"objects"`
	Caches  map[string]map[string]json.RawMessage `json:"caches"`
	Pending map[string][]string                   `json:"pending"`
	Queues  map[string]interface{}                `json:"queues"`
	Budget  [3]int                                `json:"budget_used"`
	Stale   []string                              `json:"stale_seen"`
	Faults  []string                              `json:"faults"`
	Extra   interface{}                           `json:"extra,omitempty"`
}

// Key returns the canonical state hash (DESIGN.md 2.3).
func (b *Base) Key() string {
	d := b.dump()
	raw, err := json.Marshal(d)
	if err != nil {
		panic(err)
	}
	sum := sha256.Sum256(raw)
	return hex.EncodeToString(sum[:])
}

// DumpJSON returns the canonical state as indented JSON (debugging, replays).
func (b *Base) DumpJSON() string {
	raw, _ := json.MarshalIndent(b.dump(), "", " ")
	return string(raw)
}

func (b *Base) dump() keyDump {
	d := keyDump{
		Clock:   b.Now().Sub(sim.Epoch).Milliseconds(),
		Objects: b.API.Dump(),
		Caches:  map[string]map[string]json.RawMessage{},
		Pending: map[string][]string{},
		Queues:  map[string]interface{}{},
		Budget:  [3]int{b.FaultsUsed, b.CrashesUsed, b.PreemptsUsed},
	}
	for r := range b.StaleSeen {
		d.Stale = append(d.Stale, r)
	}
	sort.Strings(d.Stale)
	d.Faults = b.FaultLog
	// Collect the resource versions in use per object identity.
	rvs := map[string]map[int64]bool{}
	note := func(id string, raw []byte) {
		if m := rvRe.FindSubmatch(raw); m != nil {
			n, _ := strconv.ParseInt(string(m[1]), 10, 64)
			if rvs[id] == nil {
				rvs[id] = map[int64]bool{}
			}
			rvs[id][n] = true
		}
	}
	for id, raw := range d.Objects {
		note(id, raw)
	}
	type pend struct {
		id  string
		typ string
		raw []byte
	}
	pending := map[string][]pend{}
	for _, inf := range b.Ctx.Set.All() {
		cd := inf.CacheDump()
		d.Caches[inf.Resource] = cd
		for k, raw := range cd {
			note(inf.Resource+"/"+k, raw)
		}
		for _, ev := range inf.PendingEvents() {
			raw, _ := json.Marshal(ev.Obj)
			id := inf.Resource + "/" + ev.Key
			note(id, raw)
			pending[inf.Resource] = append(pending[inf.Resource], pend{id, string(ev.Type), raw})
		}
	}
	for _, inf := range b.Ctx.Set.All() {
		for _, idx := range inf.LaggingListeners() {
			for _, n := range inf.ListenerPending(idx) {
				raw, _ := json.Marshal(n.Obj)
				note(inf.Resource+"/"+sim.ObjKey(n.Obj), raw)
				if n.Old != nil {
					oraw, _ := json.Marshal(n.Old)
					note(inf.Resource+"/"+sim.ObjKey(n.Obj), oraw)
				}
			}
		}
	}
	rank := func(id string, raw []byte) []byte {
		m := rvRe.FindSubmatch(raw)
		if m == nil {
			return raw
		}
		n, _ := strconv.ParseInt(string(m[1]), 10, 64)
		all := make([]int64, 0, len(rvs[id]))
		for v := range rvs[id] {
			all = append(all, v)
		}
		sort.Slice(all, func(i, j int) bool { return all[i] < all[j] })
		r := sort.Search(len(all), func(i int) bool { return all[i] >= n })
		return bytes.Replace(raw, m[0], []byte(fmt.Sprintf(`"resourceVersion":"r%d"`, r)), 1)
	}
	for id, raw := range d.Objects {
		d.Objects[id] = rank(id, raw)
	}
	for res, cd := range d.Caches {
		for k, raw := range cd {
			cd[k] = rank(res+"/"+k, raw)
		}
	}
	for res, list := range pending {
		for _, p := range list {
			d.Pending[res] = append(d.Pending[res], p.typ+" "+string(rank(p.id, p.raw)))
		}
	}
	for _, inf := range b.Ctx.Set.All() {
		for _, idx := range inf.LaggingListeners() {
			for _, n := range inf.ListenerPending(idx) {
				raw, _ := json.Marshal(n.Obj)
				id := inf.Resource + "/" + sim.ObjKey(n.Obj)
				entry := string(n.Type) + " " + string(rank(id, raw))
				if n.Old != nil {
					oraw, _ := json.Marshal(n.Old)
					entry += " old=" + string(rank(id, oraw))
				}
				name := fmt.Sprintf("listener/%s/%d", inf.Resource, idx)
				d.Pending[name] = append(d.Pending[name], entry)
			}
		}
	}
	if b.ResyncMode && b.ResyncPending {
		d.Pending["resync-pending"] = []string{"yes"}
	}
	if len(b.Unsynced) > 0 {
		d.Pending["unsynced"] = append([]string(nil), b.Unsynced...)
	}
	for _, qn := range b.QueueNames {
		q := b.Queues[qn]
		delayed := map[string]int64{}
		for k, due := range q.Delayed() {
			delayed[k] = due.Sub(sim.Epoch).Milliseconds()
		}
		d.Queues[qn] = map[string]interface{}{"ready": q.Ready(), "delayed": delayed}
	}
	if b.ExtraKey != nil {
		d.Extra = b.ExtraKey()
	}
	return d
}

// CallsString renders the API calls of the last step.
func (b *Base) CallsString() string {
	var parts []string
	for _, c := range b.calls {
		parts = append(parts, c.ID+"→"+c.Outcome)
	}
	return strings.Join(parts, " ")
}

// ---- snapshot / restore (all state is harness-owned unless a world says otherwise) ----

type baseSnap struct {
	clock    time.Time
	api      *sim.APISnapshot
	ctrl     map[string]*sim.InformerSnapshot
	hook     map[string]*sim.InformerSnapshot
	queues   map[string]*sim.QueueSnapshot
	faults   int
	preempts int
	resyncP  bool
	faultLog []string
	crashes  int
	stale    map[string]bool
	restarts int
	extra    interface{}
}

// SnapExtra / RestoreExtra capture world-specific state (monitor memory, real
// in-memory controller state). A world whose real objects hold state that
// cannot be restored leaves CanSnapshot false and is explored by replay only.
type snapHooks struct {
	CanSnapshot  bool
	SnapExtra    func() interface{}
	RestoreExtra func(interface{})
}

// InstallClock points furiko's package-level clocks at this world's clock.
func (b *Base) InstallClock() {
	ktime.Clock = b.Clock
	croncontroller.Clock = b.Clock
	mutation.Clock = b.Clock
	validation.Clock = b.Clock
}

// Snapshot captures the whole world state, or nil if unsupported.
func (b *Base) Snapshot() interface{} {
	if !b.Snap.CanSnapshot || b.ColdStart || os.Getenv("VERIF_NO_SNAPSHOT") != "" {
		return nil
	}
	s := &baseSnap{
		clock: b.Now(), api: b.API.Snapshot(),
		ctrl: map[string]*sim.InformerSnapshot{}, hook: map[string]*sim.InformerSnapshot{},
		queues: map[string]*sim.QueueSnapshot{},
		faults: b.FaultsUsed, faultLog: append([]string(nil), b.FaultLog...), crashes: b.CrashesUsed, preempts: b.PreemptsUsed, resyncP: b.ResyncPending, stale: map[string]bool{}, restarts: b.Restarts,
	}
	for _, inf := range b.Ctx.Set.All() {
		s.ctrl[inf.Resource] = inf.Snapshot()
	}
	if b.Webhooks != nil {
		for _, inf := range b.Webhooks.Ctx.Set.All() {
			s.hook[inf.Resource] = inf.Snapshot()
		}
	}
	for _, qn := range b.QueueNames {
		s.queues[qn] = b.Queues[qn].Snapshot()
	}
	for k := range b.StaleSeen {
		s.stale[k] = true
	}
	if b.Snap.SnapExtra != nil {
		s.extra = b.Snap.SnapExtra()
	}
	return s
}

// Restore resets the world to a snapshot taken from a world of the same scenario.
func (b *Base) Restore(x interface{}) {
	s := x.(*baseSnap)
	b.InstallClock()
	b.Clock.SetTime(s.clock)
	b.API.Restore(s.api)
	for _, inf := range b.Ctx.Set.All() {
		inf.Restore(s.ctrl[inf.Resource])
	}
	if b.Webhooks != nil {
		for _, inf := range b.Webhooks.Ctx.Set.All() {
			inf.Restore(s.hook[inf.Resource])
		}
	}
	for _, qn := range b.QueueNames {
		b.Queues[qn].Restore(s.queues[qn])
	}
	b.FaultsUsed, b.CrashesUsed, b.Restarts = s.faults, s.crashes, s.restarts
	b.FaultLog = append([]string(nil), s.faultLog...)
	b.PreemptsUsed = s.preempts
	b.ResyncPending = s.resyncP
	b.StaleSeen = map[string]bool{}
	for k := range s.stale {
		b.StaleSeen[k] = true
	}
	b.viols = nil
	b.calls = nil
	b.LastStale = nil
	if b.Snap.RestoreExtra != nil {
		b.Snap.RestoreExtra(s.extra)
	}
}
