package puremc

import (
	"encoding/json"
	"fmt"
	"strings"
	"time"

	corev1 "k8s.io/api/core/v1"
	metav1 "k8s.io/apimachinery/pkg/apis/meta/v1"
	"k8s.io/apimachinery/pkg/runtime"
	"k8s.io/utils/pointer"

	configv1alpha1 "github.com/furiko-io/furiko/apis/config/v1alpha1"
	execution "github.com/furiko-io/furiko/apis/execution/v1alpha1"
	"github.com/furiko-io/furiko/pkg/execution/taskexecutor/podtaskexecutor"
	"github.com/furiko-io/furiko/pkg/execution/tasks"
	"github.com/furiko-io/furiko/pkg/execution/util/cronschedule"
	"github.com/furiko-io/furiko/pkg/execution/util/jobconfig"
	"github.com/furiko-io/furiko/pkg/execution/util/parallel"

	"verif/internal/mc"
	"verif/internal/pure"
	"verif/internal/sim"
)

func init() {
	pure.Register("C17", "accepted-implies-processable", c17Processable)
	pure.Register("C17", "update-immutability", c17Immutable)
}

func cronExprs(thorough bool) []string {
	atoms := []string{"*", "5", "*/5", "1-3", "1,2", "H", "H/5", "L", "?", "x", "61", "0"}
	seen := map[string]bool{}
	var out []string
	add := func(e string) {
		if !seen[e] {
			seen[e] = true
			out = append(out, e)
		}
	}
	for _, n := range []int{5, 6, 7} {
		base := make([]string, n)
		for i := range base {
			base[i] = "*"
		}
		add(strings.Join(base, " "))
		for i := 0; i < n; i++ {
			for _, a := range atoms {
				f := append([]string(nil), base...)
				f[i] = a
				add(strings.Join(f, " "))
				if thorough || n == 5 {
					for j := i + 1; j < n; j++ {
						for _, b := range []string{"5", "H", "L", "?", "1-3"} {
							g := append([]string(nil), f...)
							g[j] = b
							add(strings.Join(g, " "))
						}
					}
				}
			}
		}
	}
	for _, e := range []string{"", "* * * *", "@daily", "@hourly", "@every 5m", "0 0 31 2 *", "0 12 9 2 * 2061", "0 0 0 1 1 * 1969", "* * * * * * * *", "H H * * *", "H(0-5) * * * *", "*/0 * * * *", "0 0 * * 7", "0 0 * * SUN", "0 0 1 JAN *", "5-1 * * * *"} {
		add(e)
	}
	return out
}

func c17World(cron *configv1alpha1.CronExecutionConfig) *mc.Base {
	cfgs := map[configv1alpha1.ConfigName]runtime.Object{configv1alpha1.CronExecutionConfigName: cron}
	return mc.NewBase(cfgs, true)
}

func baseJobConfig(name string) *execution.JobConfig {
	return &execution.JobConfig{
		TypeMeta:   metav1.TypeMeta{APIVersion: "execution.furiko.io/v1alpha1", Kind: "JobConfig"},
		ObjectMeta: metav1.ObjectMeta{Namespace: "default", Name: name},
		Spec: execution.JobConfigSpec{
			Concurrency: execution.ConcurrencySpec{Policy: execution.ConcurrencyPolicyAllow},
			Template: execution.JobTemplateSpec{Spec: execution.JobTemplate{TaskTemplate: execution.TaskTemplate{Pod: &execution.PodTemplateSpec{
				Spec: corev1.PodSpec{Containers: []corev1.Container{{Name: "c", Image: "img", Args: []string{"${option.s}", "${task.index_num}"}}}}}}}},
		},
	}
}

// processable checks the cross-component implication for one accepted JobConfig.
func processable(c *pure.Ctx, b *mc.Base, desc string, stored *execution.JobConfig, healthy *execution.JobConfig, optionValues string) {
	// (1) the cron scheduler can load it next to a healthy JobConfig, and the healthy one is still scheduled.
	if stored.Spec.Schedule != nil {
		sched, err := cronschedule.New([]*execution.JobConfig{stored, healthy}, cronschedule.WithClock(b.Clock), cronschedule.WithConfigLoader(b.Webhooks.Ctx.Configs()))
		if err != nil {
			c.Violate("scheduler-load", fmt.Sprintf("%s: accepted by admission but the cron scheduler cannot load it (aborting the load of every JobConfig): %v", desc, err))
			return
		}
		if _, err := sched.Bump(stored, b.Now()); err != nil {
			c.Violate("scheduler-bump", fmt.Sprintf("%s: accepted by admission but Bump fails: %v", desc, err))
		}
		found := false
		for _, it := range sched.VerifDump().Queue {
			if it.Name == "default/healthy" {
				found = true
			}
		}
		if !found {
			c.Violate("scheduler-healthy-dropped", fmt.Sprintf("%s: the healthy JobConfig is no longer scheduled", desc))
		}
		c.Count("scheduler-loads")
	}
	// (2) it can be instantiated into a Job that passes defaulting and validation.
	rj, err := jobconfig.NewJobFromJobConfig(stored, execution.JobTypeAdhoc, b.Now())
	if err != nil {
		c.Violate("instantiate", fmt.Sprintf("%s: NewJobFromJobConfig fails: %v", desc, err))
		return
	}
	rj.TypeMeta = metav1.TypeMeta{APIVersion: "execution.furiko.io/v1alpha1", Kind: "Job"}
	rj.Name = "inst"
	rj.Spec.OptionValues = optionValues
	obj, err := b.Webhooks.Admit(sim.Jobs, "CREATE", nil, rj)
	if err != nil {
		c.Violate("job-admission", fmt.Sprintf("%s: the Job instantiated from the accepted JobConfig is rejected: %v", desc, err))
		return
	}
	job := obj.(*execution.Job)
	job.UID = "uid-inst"
	// (3) task objects can be built for every index.
	tmpl := job.Spec.Template.TaskTemplate.Pod.ConvertToCoreSpec()
	for _, idx := range parallel.GenerateIndexes(job.Spec.Template.Parallelism) {
		if _, err := podtaskexecutor.NewPod(job, tmpl, tasks.TaskIndex{Retry: 0, Parallel: idx}); err != nil {
			c.Violate("task-build", fmt.Sprintf("%s: NewPod fails: %v", desc, err))
			return
		}
	}
	c.Count("jobs-instantiated")
}

func c17Processable(c *pure.Ctx) {
	exprs := cronExprs(c.Spec.Thorough)
	timezones := []string{"", "Asia/Singapore", "UTC", "GMT", "UTC+8", "UTC-8", "GMT-07:30", "UTC+08:00", "+08:00", "Local", "Nowhere/City", "UTC+25", "utc", "UTC+8:30", "UTC+0800", "America/New_York"}
	bools := []bool{false, true}
	accepted := 0
	for _, format := range []string{"standard", "quartz"} {
		for _, hashNames := range bools {
			for _, hashSeconds := range bools {
				for _, hashFields := range bools {
					cron := &configv1alpha1.CronExecutionConfig{CronFormat: format, CronHashNames: pointer.Bool(hashNames), CronHashSecondsByDefault: pointer.Bool(hashSeconds),
						CronHashFields: pointer.Bool(hashFields), MaxMissedSchedules: pointer.Int64(5), MaxDowntimeThresholdSeconds: 300, DefaultTimezone: pointer.String("UTC")}
					b := c17World(cron)
					cfgDesc := fmt.Sprintf("cron{format=%s hashNames=%v hashSeconds=%v hashFields=%v}", format, hashNames, hashSeconds, hashFields)
					healthy := baseJobConfig("healthy")
					healthy.Spec.Schedule = &execution.ScheduleSpec{Cron: &execution.CronSchedule{Expression: "*/5 * * * *"}}
					hs, err := b.Webhooks.Admit(sim.JobConfigs, "CREATE", nil, healthy)
					if err != nil {
						panic(err)
					}
					healthyStored := hs.(*execution.JobConfig)
					healthyStored.UID = "uid-healthy"
					try := func(desc string, jc *execution.JobConfig, optionValues string) {
						if c.Expired() {
							return
						}
						c.Eval()
						out, err := b.API.Create("env", sim.JobConfigs, jc)
						if err != nil {
							c.Count("rejected")
							return
						}
						accepted++
						c.Count("accepted")
						c.Nontrivial(cfgDesc + " " + desc)
						stored := out.(*execution.JobConfig)
						processable(c, b, cfgDesc+" "+desc, stored, healthyStored, optionValues)
						b.API.EnvRemove(sim.JobConfigs, sim.ObjKey(stored))
						if accepted%500 == 1 {
							c.Sample(map[string]interface{}{"config": cfgDesc, "jobconfig": desc})
						}
					}
					for _, e := range exprs {
						jc := baseJobConfig("x")
						jc.Spec.Schedule = &execution.ScheduleSpec{Cron: &execution.CronSchedule{Expression: e}}
						try(fmt.Sprintf("expression=%q", e), jc, "")
					}
					for _, tz := range timezones {
						for _, e := range []string{"0 10 * * *", "H/5 * * * *", "*/10 * * * * * *"} {
							jc := baseJobConfig("x")
							jc.Spec.Schedule = &execution.ScheduleSpec{Cron: &execution.CronSchedule{Expressions: []string{e, "30 * * * *"}, Timezone: tz}}
							try(fmt.Sprintf("expressions=[%q,30 * * * *] timezone=%q", e, tz), jc, "")
						}
					}
					if format == "standard" && hashNames && !hashSeconds && hashFields {
						c17Specs(c, try)
					}
				}
			}
		}
	}
}

// c17Specs enumerates non-cron spec shapes: options of every type, parallelism, numeric bounds.
func c17Specs(c *pure.Ctx, try func(desc string, jc *execution.JobConfig, optionValues string)) {
	opts := map[string]execution.Option{
		"bool":            {Type: execution.OptionTypeBool, Name: "s", Bool: &execution.BoolOptionConfig{Format: execution.BoolOptionFormatYesNo}},
		"bool-noformat":   {Type: execution.OptionTypeBool, Name: "s"},
		"bool-required":   {Type: execution.OptionTypeBool, Name: "s", Required: true, Bool: &execution.BoolOptionConfig{Format: execution.BoolOptionFormatOneZero}},
		"string":          {Type: execution.OptionTypeString, Name: "s", String: &execution.StringOptionConfig{Default: "d"}},
		"string-required": {Type: execution.OptionTypeString, Name: "s", Required: true},
		"select":          {Type: execution.OptionTypeSelect, Name: "s", Select: &execution.SelectOptionConfig{Values: []string{"a", "b"}, Default: "a"}},
		"select-required": {Type: execution.OptionTypeSelect, Name: "s", Required: true, Select: &execution.SelectOptionConfig{Values: []string{"a"}}},
		"select-novalues": {Type: execution.OptionTypeSelect, Name: "s", Select: &execution.SelectOptionConfig{}},
		"select-baddef":   {Type: execution.OptionTypeSelect, Name: "s", Select: &execution.SelectOptionConfig{Values: []string{"a"}, Default: "zz"}},
		"multi":           {Type: execution.OptionTypeMulti, Name: "s", Multi: &execution.MultiOptionConfig{Values: []string{"a", "b"}, Default: []string{"a"}, Delimiter: ","}},
		"multi-required":  {Type: execution.OptionTypeMulti, Name: "s", Required: true, Multi: &execution.MultiOptionConfig{Values: []string{"a", "b"}, Delimiter: ","}},
		"date":            {Type: execution.OptionTypeDate, Name: "s", Date: &execution.DateOptionConfig{Format: "YYYY-MM-DD"}},
		"date-required":   {Type: execution.OptionTypeDate, Name: "s", Required: true},
		"badname":         {Type: execution.OptionTypeString, Name: "not valid!"},
		"mixedcfg":        {Type: execution.OptionTypeString, Name: "s", Bool: &execution.BoolOptionConfig{Format: execution.BoolOptionFormatYesNo}},
		"unknown-type":    {Type: "Nope", Name: "s"},
	}
	required := map[string]string{"string-required": `{"s":"v"}`, "select-required": `{"s":"a"}`, "multi-required": `{"s":["a"]}`, "date-required": `{"s":"2060-01-02T03:04:05Z"}`}
	par := map[string]*execution.ParallelismSpec{
		"none": nil, "count3": {WithCount: pointer.Int64(3)}, "count0": {WithCount: pointer.Int64(0)}, "keys": {WithKeys: []string{"a", "b"}},
		"matrix": {WithMatrix: map[string][]string{"x": {"1", "2"}, "y": {"p"}}}, "two-kinds": {WithCount: pointer.Int64(2), WithKeys: []string{"a"}},
		"any": {WithCount: pointer.Int64(2), CompletionStrategy: execution.AnySuccessful}, "badstrategy": {WithCount: pointer.Int64(2), CompletionStrategy: "Most"},
		"count80": {WithCount: pointer.Int64(80)}, "dupkeys": {WithKeys: []string{"a", "a"}},
	}
	for oname, o := range opts {
		for pname, p := range par {
			for _, att := range []*int64{nil, pointer.Int64(0), pointer.Int64(1), pointer.Int64(50), pointer.Int64(51)} {
				jc := baseJobConfig("x")
				oc := o
				jc.Spec.Option = &execution.OptionSpec{Options: []execution.Option{oc}}
				if p != nil {
					jc.Spec.Template.Spec.Parallelism = p.DeepCopy()
				}
				jc.Spec.Template.Spec.MaxAttempts = att
				a := "nil"
				if att != nil {
					a = fmt.Sprint(*att)
				}
				try(fmt.Sprintf("option=%s parallelism=%s maxAttempts=%s", oname, pname, a), jc, required[oname])
			}
		}
	}
	// numeric bounds and other shapes
	for _, v := range []int64{-1, 0, 1, 3600} {
		jc := baseJobConfig("x")
		jc.Spec.Template.Spec.RetryDelaySeconds = pointer.Int64(v)
		try(fmt.Sprintf("retryDelaySeconds=%d", v), jc, "")
		jc = baseJobConfig("x")
		jc.Spec.Template.Spec.TaskPendingTimeoutSeconds = pointer.Int64(v)
		try(fmt.Sprintf("taskPendingTimeoutSeconds=%d", v), jc, "")
		jc = baseJobConfig("x")
		jc.Spec.Concurrency.MaxConcurrency = pointer.Int64(v)
		try(fmt.Sprintf("maxConcurrency=%d", v), jc, "")
	}
	jc := baseJobConfig("x")
	jc.Spec.Template.Spec.TaskTemplate.Pod = nil
	try("no-pod-template", jc, "")
	jc = baseJobConfig("x")
	jc.Spec.Template.Spec.TaskTemplate.Pod.Spec.Containers = nil
	try("no-containers", jc, "")
	jc = baseJobConfig(strings.Repeat("n", 64))
	try("long-name", jc, "")
	jc = baseJobConfig("x")
	jc.Spec.Concurrency.Policy = ""
	try("no-policy", jc, "")
	// User metadata in the job template that collides with furiko's own bookkeeping keys
	// (e.g. pasted from the YAML of a Job): accepted, so Jobs made from it must still be processable.
	jc = baseJobConfig("x")
	jc.Spec.Template.Labels = map[string]string{"execution.furiko.io/job-config-uid": "uid-of-something-else", "team": "x"}
	try("template-label-job-config-uid", jc, "")
	jc = baseJobConfig("x")
	jc.Spec.Template.Annotations = map[string]string{"execution.furiko.io/schedule-time": "1604188500"}
	try("template-annotation-schedule-time", jc, "")
	jc = baseJobConfig("x")
	jc.Spec.Template.Finalizers = []string{"example.com/other"}
	try("template-finalizer", jc, "")
}

// ---- update immutability ----

var errNoChange = fmt.Errorf("edits cancel out: object unchanged")

type edit struct {
	name  string
	apply func(rj *execution.Job)
}

func c17Immutable(c *pure.Ctx) {
	cron := &configv1alpha1.CronExecutionConfig{CronFormat: "standard"}
	b := c17World(cron)
	jcObj := baseJobConfig("jc")
	jcObj.Spec.Option = &execution.OptionSpec{Options: []execution.Option{{Type: execution.OptionTypeString, Name: "s", String: &execution.StringOptionConfig{Default: "d"}}}}
	if _, err := b.API.Create("env", sim.JobConfigs, jcObj); err != nil {
		panic(err)
	}
	now := b.Now()
	mkBase := func(started bool, kill string, terminating bool) *execution.Job {
		rj := &execution.Job{
			TypeMeta:   metav1.TypeMeta{APIVersion: "execution.furiko.io/v1alpha1", Kind: "Job"},
			ObjectMeta: metav1.ObjectMeta{Namespace: "default", Name: "j-" + kill + fmt.Sprint(started) + fmt.Sprint(terminating)},
			Spec: execution.JobSpec{ConfigName: "jc", OptionValues: `{"s":"v"}`,
				StartPolicy: &execution.StartPolicySpec{ConcurrencyPolicy: execution.ConcurrencyPolicyEnqueue}},
		}
		stored, err := b.API.Create("env", sim.Jobs, rj)
		if err != nil {
			panic(err)
		}
		key := sim.ObjKey(stored)
		b.API.EnvMutate(sim.Jobs, key, func(o runtime.Object) {
			j := o.(*execution.Job)
			if started {
				t := metav1.NewTime(now)
				j.Status.StartTime = &t
			}
			j.Spec.Template.Parallelism = &execution.ParallelismSpec{WithCount: pointer.Int64(2), CompletionStrategy: execution.AllSuccessful}
			j.Spec.Template.RetryDelaySeconds = pointer.Int64(10)
			if terminating {
				// deleted by the user, lingering while the controller removes its tasks
				t := metav1.NewTime(now)
				j.DeletionTimestamp = &t
				j.Finalizers = append(j.Finalizers, "execution.furiko.io/delete-dependents-finalizer")
			}
			switch kill {
			case "past":
				t := metav1.NewTime(now.Add(-time.Minute))
				j.Spec.KillTimestamp = &t
			case "future":
				t := metav1.NewTime(now.Add(time.Hour))
				j.Spec.KillTimestamp = &t
			}
		})
		return b.API.Job(key)
	}
	immutable := []edit{
		{"image", func(rj *execution.Job) { rj.Spec.Template.TaskTemplate.Pod.Spec.Containers[0].Image = "other" }},
		{"args", func(rj *execution.Job) { rj.Spec.Template.TaskTemplate.Pod.Spec.Containers[0].Args = []string{"x"} }},
		{"args-nil", func(rj *execution.Job) { rj.Spec.Template.TaskTemplate.Pod.Spec.Containers[0].Args = nil }},
		{"pod-labels", func(rj *execution.Job) { rj.Spec.Template.TaskTemplate.Pod.Labels = map[string]string{"n": "v"} }},
		{"parallelism-count", func(rj *execution.Job) { rj.Spec.Template.Parallelism.WithCount = pointer.Int64(3) }},
		{"parallelism-strategy", func(rj *execution.Job) { rj.Spec.Template.Parallelism.CompletionStrategy = execution.AnySuccessful }},
		{"parallelism-removed", func(rj *execution.Job) { rj.Spec.Template.Parallelism = nil }},
		{"parallelism-keys", func(rj *execution.Job) {
			rj.Spec.Template.Parallelism = &execution.ParallelismSpec{WithKeys: []string{"a", "b"}, CompletionStrategy: execution.AllSuccessful}
		}},
		{"maxAttempts-up", func(rj *execution.Job) { rj.Spec.Template.MaxAttempts = pointer.Int64(5) }},
		{"maxAttempts-down", func(rj *execution.Job) { rj.Spec.Template.MaxAttempts = pointer.Int64(1) }},
		{"retryDelay-change", func(rj *execution.Job) { rj.Spec.Template.RetryDelaySeconds = pointer.Int64(0) }},
		{"retryDelay-nil", func(rj *execution.Job) { rj.Spec.Template.RetryDelaySeconds = nil }},
		{"type", func(rj *execution.Job) { rj.Spec.Type = execution.JobTypeScheduled }},
		{"optionValues", func(rj *execution.Job) { rj.Spec.OptionValues = `{"s":"w"}` }},
		{"optionValues-empty", func(rj *execution.Job) { rj.Spec.OptionValues = "" }},
		{"substitutions-change", func(rj *execution.Job) { rj.Spec.Substitutions["option.s"] = "hacked" }},
		{"substitutions-add", func(rj *execution.Job) { rj.Spec.Substitutions["extra"] = "1" }},
		{"substitutions-nil", func(rj *execution.Job) { rj.Spec.Substitutions = nil }},
		{"jobconfig-label-change", func(rj *execution.Job) { rj.Labels["execution.furiko.io/job-config-uid"] = "other-uid" }},
		{"jobconfig-label-removed", func(rj *execution.Job) { delete(rj.Labels, "execution.furiko.io/job-config-uid") }},
	}
	mutable := []edit{
		{"user-label", func(rj *execution.Job) { rj.Labels["team"] = "x" }},
		{"annotation", func(rj *execution.Job) {
			if rj.Annotations == nil {
				rj.Annotations = map[string]string{}
			}
			rj.Annotations["n"] = "v"
		}},
		{"ttl", func(rj *execution.Job) { rj.Spec.TTLSecondsAfterFinished = pointer.Int64(5) }},
	}
	startPolicy := []edit{
		{"policy", func(rj *execution.Job) { rj.Spec.StartPolicy.ConcurrencyPolicy = execution.ConcurrencyPolicyAllow }},
		{"startAfter", func(rj *execution.Job) {
			t := metav1.NewTime(now.Add(time.Hour))
			rj.Spec.StartPolicy.StartAfter = &t
		}},
	}
	kills := []edit{
		{"kill-set-now", func(rj *execution.Job) { t := metav1.NewTime(now); rj.Spec.KillTimestamp = &t }},
		{"kill-set-later", func(rj *execution.Job) { t := metav1.NewTime(now.Add(2 * time.Hour)); rj.Spec.KillTimestamp = &t }},
		{"kill-cleared", func(rj *execution.Job) { rj.Spec.KillTimestamp = nil }},
	}
	update := func(old *execution.Job, edits ...edit) error {
		upd := old.DeepCopy()
		for _, e := range edits {
			e.apply(upd)
		}
		a, _ := json.Marshal(old)
		bb, _ := json.Marshal(upd)
		if string(a) == string(bb) {
			return errNoChange
		}
		_, err := b.Webhooks.Admit(sim.Jobs, "UPDATE", old, upd)
		return err
	}
	for _, terminating := range []bool{false, true} {
		for _, started := range []bool{false, true} {
			for _, kill := range []string{"none", "past", "future"} {
				old := mkBase(started, kill, terminating)
				bdesc := fmt.Sprintf("started=%v kill=%s terminating=%v", started, kill, terminating)
				// unrelated edits are allowed
				for _, e := range mutable {
					c.Eval()
					if err := update(old, e); err != nil && err != errNoChange {
						c.Violate("mutable-rejected", fmt.Sprintf("%s edit=%s: rejected: %v", bdesc, e.name, err))
					}
				}
				// every immutable field alone and in pairs, also combined with a harmless edit
				for i, e := range immutable {
					c.Eval()
					c.Nontrivial(bdesc + " " + e.name)
					err := update(old, e)
					if err == errNoChange {
						continue // this edit is a no-op on this base object
					}
					if err == nil {
						c.Violate("immutable-accepted", fmt.Sprintf("%s: update changing %s was accepted", bdesc, e.name))
					}
					if err := update(old, mutable[0], e); err == nil {
						c.Violate("immutable-accepted", fmt.Sprintf("%s: update changing %s together with a label was accepted", bdesc, e.name))
					}
					for j := i + 1; j < len(immutable); j++ {
						c.Eval()
						if err := update(old, e, immutable[j]); err == nil {
							c.Violate("immutable-accepted", fmt.Sprintf("%s: update changing %s and %s was accepted", bdesc, e.name, immutable[j].name))
						}
					}
				}
				for _, e := range startPolicy {
					c.Eval()
					c.Nontrivial(bdesc + " " + e.name)
					err := update(old, e)
					if started && err == nil {
						c.Violate("startpolicy-after-start", fmt.Sprintf("%s: startPolicy edit %s accepted after the Job started", bdesc, e.name))
					}
					if !started && err != nil && err != errNoChange {
						c.Violate("startpolicy-before-start", fmt.Sprintf("%s: startPolicy edit %s rejected before the Job started: %v", bdesc, e.name, err))
					}
				}
				for _, e := range kills {
					if kill == "none" && e.name == "kill-cleared" {
						continue
					}
					c.Eval()
					c.Nontrivial(bdesc + " " + e.name)
					err := update(old, e)
					if kill == "past" && err == nil {
						c.Violate("kill-after-passed", fmt.Sprintf("%s: killTimestamp edit %s accepted although it has passed", bdesc, e.name))
					}
					if kill != "past" && err != nil && err != errNoChange {
						c.Violate("kill-before-passed", fmt.Sprintf("%s: killTimestamp edit %s rejected although it has not passed: %v", bdesc, e.name, err))
					}
				}
				c.Sample(map[string]interface{}{"base": bdesc, "immutable_edits": len(immutable)})
			}
		}
	}
}
