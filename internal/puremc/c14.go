// Package puremc holds the exhaustive input enumerations over furiko's pure
// functions (C10b, C14, C16-C19), registered as pure units.
package puremc

import (
	"fmt"
	"sort"
	"strings"

	corev1 "k8s.io/api/core/v1"
	metav1 "k8s.io/apimachinery/pkg/apis/meta/v1"
	"k8s.io/apimachinery/pkg/util/validation/field"
	"k8s.io/utils/pointer"

	execution "github.com/furiko-io/furiko/apis/execution/v1alpha1"
	"github.com/furiko-io/furiko/pkg/execution/taskexecutor/podtaskexecutor"
	"github.com/furiko-io/furiko/pkg/execution/tasks"
	jobutil "github.com/furiko-io/furiko/pkg/execution/util/job"
	"github.com/furiko-io/furiko/pkg/execution/util/parallel"
	"github.com/furiko-io/furiko/pkg/execution/validation"

	"verif/internal/pure"
	"verif/internal/sim"
)

func init() {
	pure.Register("C14", "withCount", c14Count)
	pure.Register("C14", "withKeys", c14Keys)
	pure.Register("C14", "withMatrix", c14Matrix)
	pure.Register("C14", "withMatrix-key-shapes", c14MatrixKeys)
	pure.Register("C14", "index-set-fixed-after-admission", c14Update)
	pure.Register("C14", "present-but-empty-forms", c14EmptyForms)
}

// c14Update: the index set a Job was admitted with is the one its tasks and status slots are
// built for; every update that would change it (add, remove or alter the parallelism spec, in
// any of its three forms) must be refused by update admission, started or not.
func c14Update(c *pure.Ctx) {
	v := newValidator()
	two := int64(2)
	three := int64(3)
	specs := []struct {
		name string
		spec *execution.ParallelismSpec
	}{
		{"none", nil},
		{"count2", &execution.ParallelismSpec{WithCount: &two, CompletionStrategy: execution.AllSuccessful}},
		{"count3", &execution.ParallelismSpec{WithCount: &three, CompletionStrategy: execution.AllSuccessful}},
		{"keys-a-b", &execution.ParallelismSpec{WithKeys: []string{"a", "b"}, CompletionStrategy: execution.AllSuccessful}},
		{"keys-a", &execution.ParallelismSpec{WithKeys: []string{"a"}, CompletionStrategy: execution.AllSuccessful}},
		{"matrix-x12", &execution.ParallelismSpec{WithMatrix: map[string][]string{"x": {"1", "2"}}, CompletionStrategy: execution.AllSuccessful}},
		{"matrix-x1-y12", &execution.ParallelismSpec{WithMatrix: map[string][]string{"x": {"1"}, "y": {"1", "2"}}, CompletionStrategy: execution.AllSuccessful}},
		{"count2-any", &execution.ParallelismSpec{WithCount: &two, CompletionStrategy: execution.AnySuccessful}},
	}
	now := metav1.Now()
	for _, started := range []bool{false, true} {
		for _, from := range specs {
			for _, to := range specs {
				if from.name == to.name {
					continue
				}
				c.Eval()
				old := c14Job(from.spec.DeepCopy(), nil)
				upd := c14Job(to.spec.DeepCopy(), nil)
				if started {
					old.Status.StartTime, upd.Status.StartTime = &now, &now
				}
				desc := fmt.Sprintf("started=%v parallelism %s -> %s", started, from.name, to.name)
				c.Nontrivial(desc)
				if errs := v.ValidateJobUpdate(old, upd); len(errs) == 0 {
					c.Violate("index-set-changed-by-update", desc+": the update was admitted")
				}
			}
		}
	}
	c.Sample(map[string]interface{}{"specs": len(specs), "pairs": len(specs) * (len(specs) - 1) * 2})
}

func newValidator() *validation.Validator {
	clock := sim.NewClock()
	api := sim.NewAPI(clock)
	return validation.NewValidator(sim.NewContext(api, "pure", true, nil))
}

func c14Job(spec *execution.ParallelismSpec, args []string) *execution.Job {
	return &execution.Job{
		ObjectMeta: metav1.ObjectMeta{Namespace: "default", Name: "j", UID: "uid-j"},
		Spec: execution.JobSpec{
			Type: execution.JobTypeAdhoc,
			Template: &execution.JobTemplate{
				Parallelism: spec,
				TaskTemplate: execution.TaskTemplate{Pod: &execution.PodTemplateSpec{
					Spec: corev1.PodSpec{Containers: []corev1.Container{{Name: "c", Image: "img", Args: args}}},
				}},
			},
		},
	}
}

func accepted(v *validation.Validator, spec *execution.ParallelismSpec) bool {
	return len(v.ValidateParallelismSpec(spec, field.NewPath("parallelism"))) == 0
}

// checkSpec runs the per-spec oracles; want is the reference expansion (as strings).
func checkSpec(c *pure.Ctx, v *validation.Validator, desc string, spec *execution.ParallelismSpec, want []string, render func(execution.ParallelIndex) string, args []string, expectArgs func(execution.ParallelIndex) []string) {
	c.Eval()
	if !accepted(v, spec) {
		c.Count("rejected-by-admission")
		return
	}
	c.Count("accepted")
	c.Nontrivial(desc)
	idx := parallel.GenerateIndexes(spec)
	// expansion = reference set and order, deterministic
	got := make([]string, len(idx))
	for i, x := range idx {
		got[i] = render(x)
	}
	// The property fixes the set of indexes and demands a deterministic order, not a
	// particular one: compare as multisets, then check determinism below.
	gs, ws := append([]string(nil), got...), append([]string(nil), want...)
	sort.Strings(gs)
	sort.Strings(ws)
	if strings.Join(gs, "|") != strings.Join(ws, "|") {
		c.Violate("expansion", fmt.Sprintf("%s: expanded to %v, expected %v", desc, got, want))
		return
	}
	for rep := 0; rep < 2; rep++ {
		again := parallel.GenerateIndexes(spec)
		for i := range again {
			if render(again[i]) != got[i] {
				c.Violate("expansion-nondeterministic", fmt.Sprintf("%s: repeated expansion differs at %d", desc, i))
				return
			}
		}
	}
	// distinct identity: hashes, task names, status slots
	seenHash := map[string]int{}
	seenLogical := map[string]int{}
	for i, x := range idx {
		h, err := parallel.HashIndex(x)
		if err != nil {
			c.Violate("hash-error", fmt.Sprintf("%s: %v", desc, err))
			return
		}
		if j, dup := seenLogical[got[i]]; dup {
			c.Violate("distinct-identity", fmt.Sprintf("duplicate-index: %s: entries %d and %d are the same index %s (one identity, two list entries) and admission accepts", desc, j, i, got[i]), "duplicate-index")
			return
		}
		seenLogical[got[i]] = i
		if j, dup := seenHash[h]; dup {
			c.Violate("hash-injective", fmt.Sprintf("%s idx %d/%d -> %s: distinct indexes share one hash and admission accepts", desc, j, i, h))
			return
		}
		seenHash[h] = i
	}
	names := map[string]bool{}
	for _, x := range idx {
		for retry := int64(0); retry < 2; retry++ {
			n, err := jobutil.GenerateTaskName("j", tasks.TaskIndex{Retry: retry, Parallel: x})
			if err != nil || names[n] {
				c.Violate("task-name-injective", fmt.Sprintf("%s: task name %q repeated or error %v", desc, n, err))
				return
			}
			names[n] = true
		}
	}
	job := c14Job(spec, args)
	st, err := parallel.GetParallelStatus(job, nil)
	if err != nil || len(st.Indexes) != len(idx) {
		c.Violate("status-slots", fmt.Sprintf("%s: %d status slots for %d indexes (err %v)", desc, len(st.Indexes), len(idx), err))
		return
	}
	// per-index variables in the created pod
	if len(idx) <= 64 || c.Spec.Thorough {
		tmpl := job.Spec.Template.TaskTemplate.Pod.ConvertToCoreSpec()
		for _, x := range idx {
			pod, err := podtaskexecutor.NewPod(job, tmpl, tasks.TaskIndex{Retry: 0, Parallel: x})
			if err != nil {
				c.Violate("newpod-error", fmt.Sprintf("%s: NewPod failed for %s: %v", desc, render(x), err))
				return
			}
			c.Count("pods-built")
			if g, w := strings.Join(pod.Spec.Containers[0].Args, "|"), strings.Join(expectArgs(x), "|"); g != w {
				c.Violate("index-variables", fmt.Sprintf("%s: pod for %s got args %q, expected %q", desc, render(x), g, w))
				return
			}
		}
	}
}

func c14Count(c *pure.Ctx) {
	v := newValidator()
	max := 512
	if c.Spec.Thorough {
		max = 5000
	}
	render := func(x execution.ParallelIndex) string {
		if x.IndexNumber == nil {
			return "nil"
		}
		return fmt.Sprint(*x.IndexNumber)
	}
	args := []string{"${task.index_num}", "k=${task.index_key}", "r=${task.retry_index}"}
	for _, n := range []int64{0, -1} {
		c.Eval()
		if accepted(v, &execution.ParallelismSpec{WithCount: pointer.Int64(n), CompletionStrategy: execution.AllSuccessful}) {
			c.Violate("admission", fmt.Sprintf("withCount=%d accepted", n))
		}
	}
	for n := 1; n <= max; n++ {
		if c.Expired() {
			return
		}
		spec := &execution.ParallelismSpec{WithCount: pointer.Int64(int64(n)), CompletionStrategy: execution.AllSuccessful}
		want := make([]string, n)
		for i := range want {
			want[i] = fmt.Sprint(i)
		}
		checkSpec(c, v, fmt.Sprintf("withCount=%d", n), spec, want, render, args, func(x execution.ParallelIndex) []string {
			return []string{fmt.Sprint(*x.IndexNumber), "k=", "r=0"}
		})
		if n%97 == 0 {
			c.Sample(map[string]interface{}{"spec": fmt.Sprintf("withCount=%d", n)})
		}
	}
}

func c14Keys(c *pure.Ctx) {
	v := newValidator()
	alphabet := []string{"a", "b", "ab", "ba", "a-b"}
	if c.Spec.Thorough {
		alphabet = append(alphabet, "A", "a b", "0")
	}
	render := func(x execution.ParallelIndex) string { return "key:" + x.IndexKey }
	args := []string{"${task.index_key}", "n=${task.index_num}"}
	var rec func(list []string)
	rec = func(list []string) {
		if len(list) > 0 {
			spec := &execution.ParallelismSpec{WithKeys: append([]string(nil), list...), CompletionStrategy: execution.AnySuccessful}
			want := make([]string, len(list))
			for i, k := range list {
				want[i] = "key:" + k
			}
			checkSpec(c, v, fmt.Sprintf("withKeys=%v", list), spec, want, render, args, func(x execution.ParallelIndex) []string {
				return []string{x.IndexKey, "n="}
			})
			if len(list) == 3 {
				c.Sample(map[string]interface{}{"spec": fmt.Sprintf("withKeys=%v", list)})
			}
		}
		if len(list) == 4 || c.Expired() {
			return
		}
		for _, k := range alphabet {
			rec(append(list, k))
		}
	}
	rec(nil)
	// empty key must be rejected
	c.Eval()
	if accepted(v, &execution.ParallelismSpec{WithKeys: []string{"a", ""}, CompletionStrategy: execution.AllSuccessful}) {
		c.Violate("admission", "withKeys containing an empty key accepted")
	}
}

func c14Matrix(c *pure.Ctx) {
	v := newValidator()
	keys := []string{"x", "y", "xy"}
	values := []string{"1", "2", "12", "21"}
	// all non-empty value lists of length <= 3 (with duplicates)
	var lists [][]string
	var recL func(l []string)
	recL = func(l []string) {
		if len(l) > 0 {
			lists = append(lists, append([]string(nil), l...))
		}
		if len(l) == 3 {
			return
		}
		for _, val := range values {
			recL(append(l, val))
		}
	}
	recL(nil)
	if !c.Spec.Thorough {
		// quick: lists of length <= 2 plus all length-3 lists without the last value
		var q [][]string
		for _, l := range lists {
			if len(l) <= 2 || !contains(l, "21") {
				q = append(q, l)
			}
		}
		lists = q
	}
	render := func(x execution.ParallelIndex) string {
		ks := make([]string, 0, len(x.MatrixValues))
		for k := range x.MatrixValues {
			ks = append(ks, k)
		}
		sort.Strings(ks)
		var parts []string
		for _, k := range ks {
			parts = append(parts, k+"="+x.MatrixValues[k])
		}
		return strings.Join(parts, ",")
	}
	args := []string{"${task.index_matrix.x}", "${task.index_matrix.y}", "${task.index_matrix.xy}"}
	expect := func(x execution.ParallelIndex) []string {
		return []string{x.MatrixValues["x"], x.MatrixValues["y"], x.MatrixValues["xy"]}
	}
	n := 0
	for nk := 1; nk <= 3; nk++ {
		sub := lists
		if nk == 3 {
			// three axes: value lists of length <= 2 (3x3x3 would be 27 indexes per spec and 10^5 specs)
			sub = nil
			for _, l := range lists {
				if len(l) <= 2 {
					sub = append(sub, l)
				}
			}
		}
		choice := make([]int, nk)
		for {
			if c.Expired() {
				return
			}
			m := map[string][]string{}
			for i := 0; i < nk; i++ {
				m[keys[i]] = sub[choice[i]]
			}
			// reference: sorted keys, last key fastest
			sk := append([]string(nil), keys[:nk]...)
			sort.Strings(sk)
			var want []string
			var prod func(i int, cur []string)
			prod = func(i int, cur []string) {
				if i == len(sk) {
					want = append(want, strings.Join(cur, ","))
					return
				}
				for _, val := range m[sk[i]] {
					prod(i+1, append(cur, sk[i]+"="+val))
				}
			}
			prod(0, nil)
			spec := &execution.ParallelismSpec{WithMatrix: m, CompletionStrategy: execution.AllSuccessful}
			checkSpec(c, v, fmt.Sprintf("withMatrix=%v", m), spec, want, render, args, expect)
			n++
			if n%5000 == 1 {
				c.Sample(map[string]interface{}{"spec": fmt.Sprintf("withMatrix=%v", m)})
			}
			// next choice
			i := nk - 1
			for ; i >= 0; i-- {
				choice[i]++
				if choice[i] < len(sub) {
					break
				}
				choice[i] = 0
			}
			if i < 0 {
				break
			}
		}
	}
	for _, bad := range []map[string][]string{{"bad key!": {"1"}}, {"x": {""}}} {
		c.Eval()
		if accepted(v, &execution.ParallelismSpec{WithMatrix: bad, CompletionStrategy: execution.AllSuccessful}) {
			c.Violate("admission", fmt.Sprintf("withMatrix=%v accepted", bad))
		}
	}
}

// c14MatrixKeys: the matrix enumeration above varies values and sizes over three plain keys; this
// one varies the keys over every character class admission accepts (letters, digits, '-', '_',
// keys that differ only in '-' against '_', keys that are a prefix of another), every subset of
// up to three of them, each axis with its own values so that a value landing under the wrong
// key is visible. Same oracles: exact product, distinct identities, and the created Pod gets
// ${task.index_matrix.<key>} of its own index for every key.
func c14MatrixKeys(c *pure.Ctx) {
	v := newValidator()
	keys := []string{"go-version", "go_version", "goversion", "go", "-", "_", "0", "9-a_b"}
	vals := func(i int) []string { return []string{fmt.Sprintf("v%da", i), fmt.Sprintf("v%db", i)} }
	for mask := 1; mask < 1<<len(keys); mask++ {
		if c.Expired() {
			return
		}
		var sel []int
		for i := range keys {
			if mask&(1<<i) != 0 {
				sel = append(sel, i)
			}
		}
		if len(sel) > 3 {
			continue
		}
		m := map[string][]string{}
		var sk, args []string
		for _, i := range sel {
			m[keys[i]] = vals(i)
			sk = append(sk, keys[i])
		}
		sort.Strings(sk)
		for _, k := range sk {
			args = append(args, "${task.index_matrix."+k+"}")
		}
		var want []string
		var prod func(i int, cur []string)
		prod = func(i int, cur []string) {
			if i == len(sk) {
				want = append(want, strings.Join(cur, ","))
				return
			}
			for _, val := range m[sk[i]] {
				prod(i+1, append(cur, sk[i]+"="+val))
			}
		}
		prod(0, nil)
		render := func(x execution.ParallelIndex) string {
			ks := make([]string, 0, len(x.MatrixValues))
			for k := range x.MatrixValues {
				ks = append(ks, k)
			}
			sort.Strings(ks)
			var parts []string
			for _, k := range ks {
				parts = append(parts, k+"="+x.MatrixValues[k])
			}
			return strings.Join(parts, ",")
		}
		expect := func(x execution.ParallelIndex) []string {
			var out []string
			for _, k := range sk {
				out = append(out, x.MatrixValues[k])
			}
			return out
		}
		spec := &execution.ParallelismSpec{WithMatrix: m, CompletionStrategy: execution.AllSuccessful}
		checkSpec(c, v, fmt.Sprintf("withMatrix=%v", m), spec, want, render, args, expect)
	}
}

func contains(l []string, s string) bool {
	for _, x := range l {
		if x == s {
			return true
		}
	}
	return false
}

// c14EmptyForms: every combination of the three forms being absent, present but empty (count 0,
// keys [], matrix {} or an axis without values) or really given. Whatever admission accepts must
// expand to the indexes of the one form that is really given - an empty companion is not a form.
func c14EmptyForms(c *pure.Ctx) {
	v := newValidator()
	zero, two := int64(0), int64(2)
	counts := []struct {
		name string
		v    *int64
		want []string
	}{{"count:absent", nil, nil}, {"count:0", &zero, nil}, {"count:2", &two, []string{"num:0", "num:1"}}}
	keys := []struct {
		name string
		v    []string
		want []string
	}{{"keys:absent", nil, nil}, {"keys:[]", []string{}, nil}, {"keys:[a b]", []string{"a", "b"}, []string{"key:a", "key:b"}}}
	mats := []struct {
		name string
		v    map[string][]string
		want []string
	}{{"matrix:absent", nil, nil}, {"matrix:{}", map[string][]string{}, nil}, {"matrix:{x:[]}", map[string][]string{"x": {}}, nil},
		{"matrix:{x:[1 2]}", map[string][]string{"x": {"1", "2"}}, []string{"x=1", "x=2"}}}
	render := func(x execution.ParallelIndex) string {
		switch {
		case x.IndexNumber != nil:
			return fmt.Sprintf("num:%d", *x.IndexNumber)
		case x.IndexKey != "":
			return "key:" + x.IndexKey
		}
		ks := make([]string, 0, len(x.MatrixValues))
		for k := range x.MatrixValues {
			ks = append(ks, k)
		}
		sort.Strings(ks)
		var parts []string
		for _, k := range ks {
			parts = append(parts, k+"="+x.MatrixValues[k])
		}
		return strings.Join(parts, ",")
	}
	for _, cn := range counts {
		for _, ks := range keys {
			for _, m := range mats {
				given := 0
				var want []string
				for _, w := range [][]string{cn.want, ks.want, m.want} {
					if w != nil {
						given++
						want = w
					}
				}
				desc := fmt.Sprintf("%s %s %s", cn.name, ks.name, m.name)
				spec := &execution.ParallelismSpec{WithCount: cn.v, WithKeys: ks.v, WithMatrix: m.v, CompletionStrategy: execution.AllSuccessful}
				if given != 1 {
					// None or several really given: the property names no requested set for these (an axis
					// without values, for instance, is admitted and has an empty product: observed, not judged).
					c.Eval()
					if accepted(v, spec) {
						c.Count("admitted-without-exactly-one-form: " + desc)
					}
					continue
				}
				checkSpec(c, v, desc, spec, want, render, []string{"${task.index_num}"}, func(x execution.ParallelIndex) []string {
					if x.IndexNumber != nil {
						return []string{fmt.Sprint(*x.IndexNumber)}
					}
					return []string{""}
				})
			}
		}
	}
}
