package puremc

import (
	"context"
	"encoding/base64"
	"encoding/json"
	"fmt"
	"sort"
	"strings"

	corev1 "k8s.io/api/core/v1"
	metav1 "k8s.io/apimachinery/pkg/apis/meta/v1"
	"k8s.io/client-go/kubernetes/fake"

	configv1alpha1 "github.com/furiko-io/furiko/apis/config/v1alpha1"
	"github.com/furiko-io/furiko/pkg/config"
	"github.com/furiko-io/furiko/pkg/runtime/configloader"
	"github.com/furiko-io/furiko/pkg/runtime/controllercontext"

	"verif/internal/pure"
)

func init() {
	pure.Register("C19", "layering-every-field", c19Layering)
	pure.Register("C19", "update-sequences", c19Sequences)
}

// Loaders whose Start does not spawn informers: events are delivered through
// the verif-tagged VerifHandleUpdate (the real handleUpdate).
type cmNoStart struct{ *configloader.ConfigMapLoader }

func (cmNoStart) Start(context.Context) error { return nil }

type secretNoStart struct{ *configloader.SecretLoader }

func (secretNoStart) Start(context.Context) error { return nil }

type cfgHarness struct {
	cm     *configloader.ConfigMapLoader
	secret *configloader.SecretLoader
	cfgs   *controllercontext.ContextConfigs
}

func newCfgHarness() *cfgHarness {
	client := fake.NewSimpleClientset()
	h := &cfgHarness{
		cm:     configloader.NewConfigMapLoader(client, "ns", "cm"),
		secret: configloader.NewSecretLoader(client, "ns", "sec"),
	}
	mgr := configloader.NewConfigManager()
	mgr.AddConfigLoaders(configloader.NewDefaultsLoader(), cmNoStart{h.cm}, secretNoStart{h.secret})
	if err := mgr.Start(context.Background()); err != nil {
		panic(err)
	}
	h.cfgs = controllercontext.NewContextConfigs(mgr)
	return h
}

func (h *cfgHarness) sendCM(name string, data map[string]string) {
	h.cm.VerifHandleUpdate(&corev1.ConfigMap{ObjectMeta: metav1.ObjectMeta{Namespace: "ns", Name: name}, Data: data})
}

func (h *cfgHarness) sendSecret(name string, data map[string]string, badBase64 bool) {
	d := map[string][]byte{}
	for k, v := range data {
		enc := base64.StdEncoding.EncodeToString([]byte(v))
		if badBase64 {
			enc = "%%%not-base64%%%"
		}
		d[k] = []byte(enc)
	}
	h.secret.VerifHandleUpdate(&corev1.Secret{ObjectMeta: metav1.ObjectMeta{Namespace: "ns", Name: name}, Data: d})
}

// read returns the three kinds as JSON maps ("ERR" on error).
func (h *cfgHarness) read() map[string]string {
	out := map[string]string{}
	norm := func(v interface{}, err error) string {
		if err != nil {
			return "ERR"
		}
		b, _ := json.Marshal(v)
		return string(b)
	}
	j, err := h.cfgs.Jobs()
	out["jobs"] = norm(j, err)
	jc, err := h.cfgs.JobConfigs()
	out["jobConfigs"] = norm(jc, err)
	cr, err := h.cfgs.Cron()
	out["cron"] = norm(cr, err)
	return out
}

// ---- reference ----

type cfgField struct {
	kind, name string
	zero, non  interface{}
}

var cfgFields = []cfgField{
	{"jobs", "defaultTTLSecondsAfterFinished", 0, 111},
	{"jobs", "defaultPendingTimeoutSeconds", 0, 222},
	{"jobs", "forceDeleteTaskTimeoutSeconds", 0, 333},
	{"jobConfigs", "maxEnqueuedJobs", 0, 7},
	{"cron", "cronFormat", "", "quartz"},
	{"cron", "cronHashNames", false, true},
	{"cron", "cronHashSecondsByDefault", false, true},
	{"cron", "cronHashFields", false, true},
	{"cron", "defaultTimezone", "", "Asia/Singapore"},
	{"cron", "maxMissedSchedules", 0, 9},
	{"cron", "maxDowntimeThresholdSeconds", 0, 77},
}

const wrongType = "WRONGTYPE"

func defaultsMap(kind string) map[string]interface{} {
	var obj interface{}
	switch kind {
	case "jobs":
		obj = config.DefaultJobExecutionConfig
	case "jobConfigs":
		obj = config.DefaultJobConfigExecutionConfig
	case "cron":
		obj = config.DefaultCronExecutionConfig
	}
	b, _ := json.Marshal(obj)
	m := map[string]interface{}{}
	_ = json.Unmarshal(b, &m)
	return m
}

func typed(kind string) interface{} {
	switch kind {
	case "jobs":
		return &configv1alpha1.JobExecutionConfig{}
	case "jobConfigs":
		return &configv1alpha1.JobConfigExecutionConfig{}
	}
	return &configv1alpha1.CronExecutionConfig{}
}

// refLayer merges defaults <- configmap <- secret field by field and renders the typed JSON ("ERR" if undecodable).
func refLayer(kind string, layers ...map[string]interface{}) string {
	m := defaultsMap(kind)
	for _, l := range layers {
		for k, v := range l {
			m[k] = v
		}
	}
	for _, v := range m {
		if v == wrongType {
			return "ERR"
		}
	}
	b, _ := json.Marshal(m)
	t := typed(kind)
	if err := json.Unmarshal(b, t); err != nil {
		return "ERR"
	}
	out, _ := json.Marshal(t)
	return string(out)
}

func yamlOf(fields map[string]interface{}) string {
	keys := make([]string, 0, len(fields))
	for k := range fields {
		keys = append(keys, k)
	}
	sort.Strings(keys)
	var sb strings.Builder
	for _, k := range keys {
		v := fields[k]
		if v == wrongType {
			if k == "cronFormat" || k == "defaultTimezone" {
				sb.WriteString(k + ": [1, 2]\n")
			} else {
				sb.WriteString(k + ": \"not-a-number\"\n")
			}
			continue
		}
		b, _ := json.Marshal(v)
		sb.WriteString(k + ": " + string(b) + "\n")
	}
	if sb.Len() == 0 {
		return "{}\n"
	}
	return sb.String()
}

func dataOf(content map[string]map[string]interface{}) map[string]string {
	out := map[string]string{}
	for kind, fields := range content {
		out[kind] = yamlOf(fields)
	}
	return out
}

var kinds3 = []string{"jobs", "jobConfigs", "cron"}

func c19Layering(c *pure.Ctx) {
	choices := []string{"unset", "zero", "non"}
	pick := func(f cfgField, ch string) (interface{}, bool) {
		switch ch {
		case "zero":
			return f.zero, true
		case "non":
			return f.non, true
		}
		return nil, false
	}
	check := func(desc string, cm, sec map[string]map[string]interface{}) {
		c.Eval()
		h := newCfgHarness()
		if len(cm) > 0 {
			h.sendCM("cm", dataOf(cm))
		}
		if len(sec) > 0 {
			h.sendSecret("sec", dataOf(sec), false)
		}
		got := h.read()
		for _, k := range kinds3 {
			want := refLayer(k, cm[k], sec[k])
			if got[k] != want {
				c.Violate("layering", fmt.Sprintf("zero-value-override: %s: kind %s effective %s, expected %s", desc, k, got[k], want))
			}
		}
		c.Nontrivial(desc)
	}
	// every field alone: 3x3 ConfigMap x Secret
	for _, f := range cfgFields {
		for _, a := range choices {
			for _, b := range choices {
				cm, sec := map[string]map[string]interface{}{}, map[string]map[string]interface{}{}
				if v, ok := pick(f, a); ok {
					cm[f.kind] = map[string]interface{}{f.name: v}
				}
				if v, ok := pick(f, b); ok {
					sec[f.kind] = map[string]interface{}{f.name: v}
				}
				desc := fmt.Sprintf("field %s.%s configmap=%s secret=%s", f.kind, f.name, a, b)
				check(desc, cm, sec)
				if a == "non" && b == "zero" {
					c.Sample(map[string]interface{}{"case": desc, "configmap": dataOf(cm), "secret": dataOf(sec)})
				}
			}
		}
	}
	// all pairs of fields: one set in the ConfigMap, the other in the Secret, and both in the ConfigMap
	for i, f := range cfgFields {
		for j, g := range cfgFields {
			if i == j {
				continue
			}
			for _, a := range []string{"zero", "non"} {
				for _, b := range []string{"zero", "non"} {
					va, _ := pick(f, a)
					vb, _ := pick(g, b)
					cm := map[string]map[string]interface{}{f.kind: {f.name: va}}
					sec := map[string]map[string]interface{}{g.kind: {g.name: vb}}
					check(fmt.Sprintf("pair configmap %s.%s=%s, secret %s.%s=%s", f.kind, f.name, a, g.kind, g.name, b), cm, sec)
					if i < j {
						both := map[string]map[string]interface{}{f.kind: {f.name: va}}
						if both[g.kind] == nil {
							both[g.kind] = map[string]interface{}{}
						}
						both[g.kind][g.name] = vb
						check(fmt.Sprintf("pair both in configmap %s.%s=%s, %s.%s=%s", f.kind, f.name, a, g.kind, g.name, b), both, nil)
					}
				}
			}
		}
	}
}

// ---- update sequences ----

type cfgEvent struct {
	name string
	// apply delivers the event to the real loaders and updates the reference source content
	// (nil content = event ignored / rejected by the loader).
	source  string // cm | secret
	content map[string]map[string]interface{}
	junk    bool // unparseable YAML in one key: loader must keep its previous content
	badB64  bool
	other   bool // other object name: ignored
}

func c19Events() []cfgEvent {
	return []cfgEvent{
		{name: "cm:good1", source: "cm", content: map[string]map[string]interface{}{"jobs": {"defaultTTLSecondsAfterFinished": 111}}},
		{name: "cm:good2", source: "cm", content: map[string]map[string]interface{}{"jobs": {"defaultTTLSecondsAfterFinished": 222, "defaultPendingTimeoutSeconds": 0}, "cron": {"maxMissedSchedules": 9, "cronHashNames": false}}},
		{name: "cm:empty", source: "cm", content: map[string]map[string]interface{}{}},
		{name: "cm:junk-yaml", source: "cm", junk: true, content: map[string]map[string]interface{}{"jobs": {"defaultTTLSecondsAfterFinished": 999}}},
		{name: "cm:wrong-type", source: "cm", content: map[string]map[string]interface{}{"jobs": {"defaultTTLSecondsAfterFinished": wrongType, "forceDeleteTaskTimeoutSeconds": 5}, "jobConfigs": {"maxEnqueuedJobs": 3}}},
		{name: "cm:other-name", source: "cm", other: true, content: map[string]map[string]interface{}{"jobs": {"defaultTTLSecondsAfterFinished": 555}}},
		{name: "sec:good", source: "secret", content: map[string]map[string]interface{}{"jobs": {"defaultPendingTimeoutSeconds": 33}, "cron": {"defaultTimezone": "Asia/Singapore"}}},
		{name: "sec:fixes-type", source: "secret", content: map[string]map[string]interface{}{"jobs": {"defaultTTLSecondsAfterFinished": 44}}},
		{name: "sec:bad-base64", source: "secret", badB64: true, content: map[string]map[string]interface{}{"jobs": {"defaultPendingTimeoutSeconds": 66}}},
		{name: "sec:wrong-type", source: "secret", content: map[string]map[string]interface{}{"cron": {"maxMissedSchedules": wrongType}}},
		{name: "sec:empty", source: "secret", content: map[string]map[string]interface{}{}},
		{name: "sec:other-name", source: "secret", other: true, content: map[string]map[string]interface{}{"jobs": {"defaultPendingTimeoutSeconds": 77}}},
		{name: "sec:other-name-empty", source: "secret", other: true, content: map[string]map[string]interface{}{}},
	}
}

func c19Sequences(c *pure.Ctx) {
	events := c19Events()
	depth := 4
	if c.Spec.Thorough {
		depth = 5
	}
	seq := make([]int, 0, depth)
	states := map[string]bool{}
	run := func(seq []int) {
		h := newCfgHarness()
		var cm, sec map[string]map[string]interface{}
		lastGood := map[string]string{}
		var trace []string
		// initial read
		for k, v := range h.read() {
			lastGood[k] = v
		}
		for _, i := range seq {
			ev := events[i]
			trace = append(trace, ev.name)
			data := dataOf(ev.content)
			if ev.junk {
				data["cron"] = "{{{ this is : not yaml ::: ["
			}
			name := map[string]string{"cm": "cm", "secret": "sec"}[ev.source]
			if ev.other {
				name = "something-else"
			}
			if ev.source == "cm" {
				h.sendCM(name, data)
				if !ev.junk && !ev.other {
					cm = ev.content
				}
			} else {
				h.sendSecret(name, data, ev.badB64)
				if !ev.badB64 && !ev.other {
					sec = ev.content
				}
			}
			c.Eval()
			got := h.read()
			for _, k := range kinds3 {
				want := refLayer(k, cm[k], sec[k])
				if want == "ERR" {
					// Undecodable: readers keep the last good configuration.
					want = lastGood[k]
					c.Count("fallback-reads")
				} else {
					lastGood[k] = want
				}
				if got[k] != want {
					monitor := "last-known-good"
					if refLayer(k, cm[k], sec[k]) != "ERR" {
						monitor = "sequence-layering"
					}
					c.Violate(monitor, fmt.Sprintf("zero-value-override? events %v: kind %s effective %s, expected %s", trace, k, got[k], want))
					return
				}
			}
			states[fmt.Sprintf("%v|%v|%v", cm, sec, lastGood)] = true
		}
		if len(seq) == depth {
			c.Nontrivial(strings.Join(trace, ","))
			c.Sample(map[string]interface{}{"events": trace, "final": h.read()})
		}
	}
	var rec func()
	rec = func() {
		if c.Expired() {
			return
		}
		run(seq)
		if len(seq) == depth {
			return
		}
		for i := range events {
			seq = append(seq, i)
			rec()
			seq = seq[:len(seq)-1]
		}
	}
	rec()
	c.SetStates(len(states))
}
