package puremc

import (
	"fmt"
	"strings"
	"time"

	metav1 "k8s.io/apimachinery/pkg/apis/meta/v1"
	"k8s.io/utils/pointer"

	execution "github.com/furiko-io/furiko/apis/execution/v1alpha1"
	"github.com/furiko-io/furiko/pkg/execution/controllers/jobcontroller"
	"github.com/furiko-io/furiko/pkg/execution/util/parallel"
	"github.com/furiko-io/furiko/pkg/utils/ktime"

	"verif/internal/pure"
	"verif/internal/sim"
)

func init() {
	pure.Register("C10", "aggregation-all-outcome-histories", c10Aggregation)
}

// outcome of one task (attempt) of an index.
type outcome int

const (
	oStarting outcome = iota
	oRunning
	oSucceeded
	oFailed
	oKilled // deleted by the controller (pending timeout): terminal, not a success
	oLost   // object vanished: terminal, final state unknown
)

var outcomeNames = []string{"starting", "running", "succeeded", "failed", "killed", "lost"}

func (o outcome) alive() bool { return o == oStarting || o == oRunning }

// histories enumerates the per-index task histories of length <= max: every attempt but the
// last is terminal and not a success (a retry only follows a failed attempt).
func histories(max int) [][]outcome {
	out := [][]outcome{{}}
	var rec func(cur []outcome)
	rec = func(cur []outcome) {
		if len(cur) == max {
			return
		}
		for o := oStarting; o <= oLost; o++ {
			h := append(append([]outcome(nil), cur...), o)
			out = append(out, h)
			if o == oFailed || o == oKilled || o == oLost {
				rec(h)
			}
		}
	}
	rec(nil)
	return out
}

func c10Aggregation(c *pure.Ctx) {
	clock := sim.NewClock()
	ktime.Clock = clock
	t0 := metav1.NewTime(sim.Epoch)
	type cfg struct{ indexes, attempts int }
	cfgs := []cfg{{1, 3}, {2, 3}, {3, 2}}
	if c.Spec.Thorough {
		cfgs = []cfg{{1, 4}, {2, 3}, {3, 3}, {4, 1}}
	}
	n := 0
	for _, cf := range cfgs {
		hs := histories(cf.attempts)
		for _, strategy := range []execution.ParallelCompletionStrategy{execution.AllSuccessful, execution.AnySuccessful} {
			choice := make([]int, cf.indexes)
			for {
				if c.Expired() {
					return
				}
				job := &execution.Job{
					ObjectMeta: metav1.ObjectMeta{Namespace: "default", Name: "j"},
					Spec: execution.JobSpec{Template: &execution.JobTemplate{MaxAttempts: pointer.Int64(int64(cf.attempts)),
						Parallelism: &execution.ParallelismSpec{WithCount: pointer.Int64(int64(cf.indexes)), CompletionStrategy: strategy}}},
					Status: execution.JobStatus{StartTime: &t0},
				}
				if cf.indexes == 1 && strategy == execution.AllSuccessful {
					job.Spec.Template.Parallelism = nil // also exercise the non-parallel default index
				}
				var desc []string
				alive := 0
				succIdx, exhaustedIdx := 0, 0
				for i := 0; i < cf.indexes; i++ {
					h := hs[choice[i]]
					var names []string
					succ, terminal := false, 0
					for r, o := range h {
						ref := execution.TaskRef{
							Name:              fmt.Sprintf("j-%d-%d", i, r),
							CreationTimestamp: metav1.NewTime(sim.Epoch.Add(time.Duration(r*10) * time.Second)),
							RetryIndex:        int64(r),
							ParallelIndex:     &execution.ParallelIndex{IndexNumber: pointer.Int64(int64(i))},
						}
						run := metav1.NewTime(sim.Epoch.Add(time.Duration(r*10+1) * time.Second))
						fin := metav1.NewTime(sim.Epoch.Add(time.Duration(r*10+5) * time.Second))
						switch o {
						case oStarting:
							ref.Status.State = execution.TaskStarting
						case oRunning:
							ref.Status.State = execution.TaskRunning
							ref.RunningTimestamp = &run
						case oSucceeded:
							ref.Status = execution.TaskStatus{State: execution.TaskTerminated, Result: execution.TaskSucceeded}
							ref.RunningTimestamp, ref.FinishTimestamp = &run, &fin
						case oFailed:
							ref.Status = execution.TaskStatus{State: execution.TaskTerminated, Result: execution.TaskFailed}
							ref.RunningTimestamp, ref.FinishTimestamp = &run, &fin
						case oKilled:
							ref.Status = execution.TaskStatus{State: execution.TaskTerminated, Result: execution.TaskKilled, Reason: "PendingTimeout"}
							ref.FinishTimestamp = &fin
						case oLost:
							ref.Status = execution.TaskStatus{State: execution.TaskDeletedFinalStateUnknown}
							ref.FinishTimestamp = &fin
						}
						if ref.FinishTimestamp != nil {
							ref.DeletedStatus = ref.Status.DeepCopy()
						}
						job.Status.Tasks = append(job.Status.Tasks, ref)
						names = append(names, outcomeNames[o])
						if o.alive() {
							alive++
						} else {
							terminal++
						}
						if o == oSucceeded {
							succ = true
						}
					}
					if succ {
						succIdx++
					} else if terminal >= cf.attempts {
						exhaustedIdx++
					}
					desc = append(desc, "["+strings.Join(names, ",")+"]")
				}
				d := fmt.Sprintf("strategy=%s maxAttempts=%d indexes=%s", strategy, cf.attempts, strings.Join(desc, " "))
				// reference decision
				var decidedSucc, decidedFail bool
				if strategy == execution.AnySuccessful {
					decidedSucc, decidedFail = succIdx > 0, exhaustedIdx == cf.indexes
				} else {
					decidedSucc, decidedFail = succIdx == cf.indexes, exhaustedIdx > 0
				}
				c.Eval()
				n++
				job.Status.CreatedTasks = int64(len(job.Status.Tasks))
				out, err := jobcontroller.UpdateJobStatusFromTaskRefs(job)
				if err != nil {
					c.Violate("aggregation-error", d+": "+err.Error())
				} else {
					c.Nontrivial(d)
					fin := out.Status.Condition.Finished
					switch {
					case fin != nil && alive > 0:
						c.Violate("finished-with-live-task", fmt.Sprintf("%s: reported %s while %d task(s) are alive", d, fin.Result, alive))
					case fin != nil && fin.Result == execution.JobResultSuccess && !decidedSucc:
						c.Violate("success-not-implied", d+": reported Success")
					case fin != nil && fin.Result == execution.JobResultFailed && !decidedFail:
						c.Violate("failure-not-implied", d+": reported Failed")
					case fin != nil && fin.Result != execution.JobResultSuccess && fin.Result != execution.JobResultFailed:
						c.Violate("unexpected-result", fmt.Sprintf("%s: reported %s", d, fin.Result))
					case fin == nil && alive == 0 && decidedSucc:
						c.Violate("success-not-reached", fmt.Sprintf("%s: strategy satisfied, nothing alive, phase %s", d, out.Status.Phase))
					case fin == nil && alive == 0 && decidedFail && !decidedSucc:
						c.Violate("failure-not-reached", fmt.Sprintf("%s: strategy unsatisfiable, nothing alive, phase %s", d, out.Status.Phase))
					}
					if out.Status.Phase.IsTerminal() != (fin != nil) {
						c.Violate("phase-vs-finished", fmt.Sprintf("%s: phase %s, finished=%v", d, out.Status.Phase, fin != nil))
					}
					if ps := out.Status.ParallelStatus; ps != nil {
						if len(ps.Indexes) != cf.indexes {
							c.Violate("status-slots", fmt.Sprintf("%s: %d index slots", d, len(ps.Indexes)))
						}
						if ps.Complete != (decidedSucc || decidedFail) {
							c.Violate("complete-flag", fmt.Sprintf("%s: complete=%v, reference decided=%v", d, ps.Complete, decidedSucc || decidedFail))
						}
						// nothing may be requested for a decided job / a succeeded or exhausted index; one request per undecided idle index
						reqs, err := parallel.ComputeMissingIndexesForCreation(out, parallel.GenerateIndexes(out.Spec.Template.Parallelism))
						if err == nil {
							for _, rq := range reqs {
								i := int(*rq.ParallelIndex.IndexNumber)
								h := hs[choice[i]]
								if len(h) > 0 && (h[len(h)-1].alive() || h[len(h)-1] == oSucceeded) {
									c.Violate("retry-requested-wrongly", fmt.Sprintf("%s: creation requested for index %d whose last task is %s", d, i, outcomeNames[h[len(h)-1]]))
								}
								if int(rq.RetryIndex) != len(h) || len(h) >= cf.attempts {
									c.Violate("retry-number", fmt.Sprintf("%s: creation requested for index %d with retry %d after %d attempts (max %d)", d, i, rq.RetryIndex, len(h), cf.attempts))
								}
							}
						}
					}
					if n%20011 == 1 {
						c.Sample(map[string]interface{}{"case": d, "phase": out.Status.Phase})
					}
				}
				i := cf.indexes - 1
				for ; i >= 0; i-- {
					choice[i]++
					if choice[i] < len(hs) {
						break
					}
					choice[i] = 0
				}
				if i < 0 {
					break
				}
			}
		}
	}
}
