package puremc

import (
	"encoding/json"
	"fmt"
	"sort"
	"strings"
	"time"

	corev1 "k8s.io/api/core/v1"
	metav1 "k8s.io/apimachinery/pkg/apis/meta/v1"
	"k8s.io/apimachinery/pkg/util/validation/field"

	execution "github.com/furiko-io/furiko/apis/execution/v1alpha1"
	"github.com/furiko-io/furiko/pkg/core/options"
	"github.com/furiko-io/furiko/pkg/execution/taskexecutor/podtaskexecutor"
	"github.com/furiko-io/furiko/pkg/execution/tasks"
	"github.com/furiko-io/furiko/pkg/execution/util/parallel"

	"verif/internal/mc"
	"verif/internal/pure"
	"verif/internal/sim"
)

func init() {
	pure.Register("C18", "option-evaluation", c18Eval)
	pure.Register("C18", "substitution-determinism", c18Determinism)
	pure.Register("C18", "precedence-in-pod", c18Precedence)
}

// ---- reference model of option evaluation ----

type refResult struct {
	ok  bool
	val string
}

func refBool(cfg *execution.BoolOptionConfig, v bool) (string, bool) {
	switch cfg.Format {
	case execution.BoolOptionFormatTrueFalse:
		if v {
			return "true", true
		}
		return "false", true
	case execution.BoolOptionFormatOneZero:
		if v {
			return "1", true
		}
		return "0", true
	case execution.BoolOptionFormatYesNo:
		if v {
			return "yes", true
		}
		return "no", true
	case execution.BoolOptionFormatCustom:
		if v {
			return cfg.TrueVal, true
		}
		return cfg.FalseVal, true
	}
	return "", false
}

func inList(l []string, s string) bool {
	for _, x := range l {
		if x == s {
			return true
		}
	}
	return false
}

// refEval is the boring reference: given means a non-null value was submitted.
func refEval(o execution.Option, given bool, value interface{}) refResult {
	switch o.Type {
	case execution.OptionTypeBool:
		v := o.Bool.Default
		if given {
			b, ok := value.(bool)
			if !ok {
				return refResult{}
			}
			v = b
		}
		s, ok := refBool(o.Bool, v)
		return refResult{ok, s}
	case execution.OptionTypeString:
		v := o.String.Default
		if given {
			s, ok := value.(string)
			if !ok {
				return refResult{}
			}
			v = s
		}
		if o.String.TrimSpaces {
			v = strings.TrimSpace(v)
		}
		if o.Required && v == "" {
			return refResult{}
		}
		return refResult{true, v}
	case execution.OptionTypeSelect:
		v := o.Select.Default
		if given {
			s, ok := value.(string)
			if !ok {
				return refResult{}
			}
			v = s
		}
		if v == "" {
			return refResult{!o.Required, ""}
		}
		if !o.Select.AllowCustom && !inList(o.Select.Values, v) {
			return refResult{}
		}
		return refResult{true, v}
	case execution.OptionTypeMulti:
		var v []string
		if given {
			l, ok := value.([]interface{})
			if !ok {
				return refResult{}
			}
			for _, x := range l {
				s, ok := x.(string)
				if !ok {
					return refResult{}
				}
				v = append(v, s)
			}
		}
		if len(v) == 0 {
			v = o.Multi.Default
		}
		if len(v) == 0 {
			return refResult{!o.Required, ""}
		}
		for _, x := range v {
			if x == "" || (!o.Multi.AllowCustom && !inList(o.Multi.Values, x)) {
				return refResult{}
			}
		}
		return refResult{true, strings.Join(v, o.Multi.Delimiter)}
	case execution.OptionTypeDate:
		s := ""
		if given {
			x, ok := value.(string)
			if !ok {
				return refResult{}
			}
			s = x
		}
		if s == "" {
			return refResult{!o.Required, ""}
		}
		t, err := time.Parse(time.RFC3339, s)
		if err != nil {
			return refResult{}
		}
		if t.IsZero() {
			return refResult{!o.Required, ""}
		}
		switch o.Date.Format {
		case "YYYY-MM-DD":
			return refResult{true, t.Format("2006-01-02")}
		case "YYYYMMDD HH:mm":
			return refResult{true, t.Format("20060102 15:04")}
		}
		return refResult{true, "*"} // any non-empty string
	}
	return refResult{}
}

func c18Options() []execution.Option {
	var out []execution.Option
	for _, def := range []bool{false, true} {
		for _, f := range []execution.BoolOptionFormat{"", execution.BoolOptionFormatTrueFalse, execution.BoolOptionFormatOneZero, execution.BoolOptionFormatYesNo, execution.BoolOptionFormatCustom} {
			b := &execution.BoolOptionConfig{Default: def, Format: f}
			if f == execution.BoolOptionFormatCustom {
				b.TrueVal, b.FalseVal = "--on", ""
			}
			out = append(out, execution.Option{Type: execution.OptionTypeBool, Name: "o", Bool: b})
		}
	}
	out = append(out, execution.Option{Type: execution.OptionTypeBool, Name: "o"})
	for _, req := range []bool{false, true} {
		for _, def := range []string{"", "d", "  d  ", "   ", "${option.p}"} {
			for _, trim := range []bool{false, true} {
				out = append(out, execution.Option{Type: execution.OptionTypeString, Name: "o", Required: req, String: &execution.StringOptionConfig{Default: def, TrimSpaces: trim}})
			}
		}
		out = append(out, execution.Option{Type: execution.OptionTypeString, Name: "o", Required: req})
		for _, def := range []string{"", "a", "zz"} {
			for _, custom := range []bool{false, true} {
				for _, vals := range [][]string{{"a", "b"}, {"a"}, nil} {
					out = append(out, execution.Option{Type: execution.OptionTypeSelect, Name: "o", Required: req, Select: &execution.SelectOptionConfig{Default: def, Values: vals, AllowCustom: custom}})
				}
			}
		}
		for _, def := range [][]string{nil, {"a"}, {"a", "b"}, {"zz"}} {
			for _, custom := range []bool{false, true} {
				for _, delim := range []string{",", "", " "} {
					out = append(out, execution.Option{Type: execution.OptionTypeMulti, Name: "o", Required: req, Multi: &execution.MultiOptionConfig{Default: def, Values: []string{"a", "b", "c"}, AllowCustom: custom, Delimiter: delim}})
				}
			}
		}
		for _, f := range []string{"", "YYYY-MM-DD", "YYYYMMDD HH:mm"} {
			out = append(out, execution.Option{Type: execution.OptionTypeDate, Name: "o", Required: req, Date: &execution.DateOptionConfig{Format: f}})
		}
		out = append(out, execution.Option{Type: execution.OptionTypeDate, Name: "o", Required: req})
	}
	return out
}

func c18Values() []string {
	// JSON texts of submitted values for option "o" ("-" = key absent).
	return []string{"-", "null", `""`, `"a"`, `"b"`, `"zz"`, `"  a  "`, `"   "`, `true`, `false`, `1`, `["a"]`, `["a","b"]`, `["zz"]`, `[]`, `[""]`, `[1]`, `{"x":1}`,
		`"2060-01-02T03:04:05Z"`, `"2060-01-02"`, `"${option.p}"`, `"${job.name}"`}
}

func c18Eval(c *pure.Ctx) {
	for _, raw := range c18Options() {
		spec := options.MutateDefaultingOptionSpec(&execution.OptionSpec{Options: []execution.Option{raw}})
		if errs := options.ValidateOptionSpec(spec, field.NewPath("option")); len(errs) > 0 {
			c.Eval()
			c.Count("spec-rejected")
			continue
		}
		o := spec.Options[0]
		// Normalise nil configs the way evaluation does, for the reference.
		ro := o
		if ro.Bool == nil {
			ro.Bool = &execution.BoolOptionConfig{}
		}
		if ro.String == nil {
			ro.String = &execution.StringOptionConfig{}
		}
		if ro.Select == nil {
			ro.Select = &execution.SelectOptionConfig{}
		}
		if ro.Multi == nil {
			ro.Multi = &execution.MultiOptionConfig{}
		}
		if ro.Date == nil {
			ro.Date = &execution.DateOptionConfig{}
		}
		odesc, _ := json.Marshal(o)
		defaults, derr := options.MakeDefaultOptions(spec)
		for _, vs := range c18Values() {
			c.Eval()
			submitted := map[string]interface{}{}
			given := false
			var val interface{}
			if vs != "-" {
				if err := json.Unmarshal([]byte(vs), &val); err != nil {
					panic(err)
				}
				submitted["o"] = val
				given = val != nil
			}
			desc := fmt.Sprintf("option=%s value=%s", odesc, vs)
			got, errs := options.EvaluateOptions(submitted, spec, field.NewPath("optionValues"))
			want := refEval(ro, given, val)
			c.Nontrivial(desc)
			switch {
			case len(errs) > 0 && want.ok:
				c.Violate("evaluation-rejects-valid", fmt.Sprintf("%s: rejected (%v), reference yields %q", desc, errs.ToAggregate(), want.val))
			case len(errs) == 0 && !want.ok:
				c.Violate("evaluation-accepts-invalid", fmt.Sprintf("%s: yields %q, reference rejects", desc, got["option.o"]))
			case len(errs) == 0:
				g, present := got["option.o"]
				if !present || len(got) != 1 {
					c.Violate("one-value-per-option", fmt.Sprintf("%s: result %v", desc, got))
				} else if want.val == "*" {
					if g == "" {
						c.Violate("evaluation-value", fmt.Sprintf("%s: empty formatted date", desc))
					}
				} else if g != want.val {
					c.Violate("evaluation-value", fmt.Sprintf("%s: yields %q, reference %q", desc, g, want.val))
				}
				// Absent value => exactly what the JobConfig's defaults produce.
				if !given {
					c.Count("default-agreement")
					if derr != nil {
						c.Violate("default-agreement", fmt.Sprintf("%s: evaluation of an absent value yields %q but MakeDefaultOptions fails: %v", desc, g, derr))
					} else if defaults["option.o"] != g {
						c.Violate("default-agreement", fmt.Sprintf("%s: evaluation of an absent value yields %q but the JobConfig default is %q", desc, g, defaults["option.o"]))
					}
				}
			}
			if len(c.Spec.ID) > 0 && (vs == `"a"` || vs == "-") {
				c.Sample(map[string]interface{}{"option": string(odesc), "value": vs, "result": got, "errors": len(errs)})
			}
		}
	}
}

// ---- determinism of multi-variable substitution ----

func permutations(n int) [][]int {
	var out [][]int
	var rec func(cur []int, used []bool)
	rec = func(cur []int, used []bool) {
		if len(cur) == n {
			out = append(out, append([]int(nil), cur...))
			return
		}
		for i := 0; i < n; i++ {
			if !used[i] {
				used[i] = true
				rec(append(cur, i), used)
				used[i] = false
			}
		}
	}
	rec(nil, make([]bool, n))
	return out
}

func c18Determinism(c *pure.Ctx) {
	names := []string{"a", "b", "c", "option.d"}
	values := []string{"x", "", "${a}", "${b}", "${c}y", "${option.d}"}
	targets := []string{"${a}", "${a}-${b}", "${c}", "echo ${a} ${option.d}", "${b}${a}"}
	reps := 64
	maxEntries := 3
	if c.Spec.Thorough {
		maxEntries = 4
	}
	var rec func(i int, m map[string]string)
	check := func(m map[string]string) {
		keys := make([]string, 0, len(m))
		for k := range m {
			keys = append(keys, k)
		}
		sort.Strings(keys)
		for _, target := range targets {
			c.Eval()
			// Own the map-iteration order by decomposition: fold single-entry calls of the real function in every order.
			results := map[string][]string{}
			for _, p := range permutations(len(keys)) {
				s := target
				var order []string
				for _, i := range p {
					s = options.SubstituteVariables(s, map[string]string{keys[i]: m[keys[i]]})
					order = append(order, keys[i])
				}
				if _, ok := results[s]; !ok {
					results[s] = order
				}
			}
			if len(results) <= 1 {
				c.Count("order-insensitive")
				continue
			}
			// Order-sensitive input: the real multi-entry call must give one and the same result every time.
			c.Count("order-sensitive")
			c.Nontrivial(fmt.Sprintf("%v|%s", m, target))
			first := options.SubstituteVariables(target, m)
			for r := 0; r < reps; r++ {
				if again := options.SubstituteVariables(target, m); again != first {
					c.Violate("nondeterministic-substitution", fmt.Sprintf("nested-var-in-value: SubstituteVariables(%q, %v) yields %q and %q (order-dependent: %v)", target, m, first, again, results), "nested-var-in-value")
					break
				}
			}
			if len(m) == 2 {
				c.Sample(map[string]interface{}{"target": target, "map": m, "results_by_order": results})
			}
		}
	}
	rec = func(i int, m map[string]string) {
		if c.Expired() {
			return
		}
		if i == len(names) {
			if len(m) >= 2 && len(m) <= maxEntries {
				check(m)
			}
			return
		}
		rec(i+1, m)
		for _, v := range values {
			m[names[i]] = v
			rec(i+1, m)
			delete(m, names[i])
		}
	}
	rec(0, map[string]string{})
}

// ---- precedence of sources in the created pod ----

func c18Precedence(c *pure.Ctx) {
	for _, jcDefault := range []string{"", "JCDEF"} {
		for _, optVal := range []string{"-", "OPTVAL", "${option.p}"} {
			for _, explicit := range []string{"-", "EXPL", ""} {
				for _, explicitCtx := range []string{"-", "CTXOVR", ""} {
					for _, suffix := range []string{"-", ""} {
						c.Eval()
						b := mc.NewBase(nil, true)
						jc := &execution.JobConfig{
							TypeMeta:   metav1.TypeMeta{APIVersion: "execution.furiko.io/v1alpha1", Kind: "JobConfig"},
							ObjectMeta: metav1.ObjectMeta{Namespace: "default", Name: "jc"},
							Spec: execution.JobConfigSpec{
								Concurrency: execution.ConcurrencySpec{Policy: execution.ConcurrencyPolicyAllow},
								Template: execution.JobTemplateSpec{Spec: execution.JobTemplate{TaskTemplate: execution.TaskTemplate{Pod: &execution.PodTemplateSpec{
									Spec: corev1.PodSpec{Containers: []corev1.Container{{Name: "c", Image: "img:${option.o}", Args: []string{
										"o=${option.o}", "p=${option.p}", "job=${job.name}", "retry=${task.retry_index}", "unk=${option.unknown}|${job.nope}|${task.nope}|${jobconfig.nope}", "other=${other.x} $HOME ${}", "sfx=out${suffix}.log", "unk2=${option.dry-run}|${job.x-y}|${task.index_matrix.no-key}|${jobconfig.a b}",
									}, Env: []corev1.EnvVar{{Name: "E", Value: "${option.o}/${task.index_num}"}}}}},
								}}}},
								Option: &execution.OptionSpec{Options: []execution.Option{
									{Type: execution.OptionTypeString, Name: "o", String: &execution.StringOptionConfig{Default: jcDefault}},
									{Type: execution.OptionTypeString, Name: "p", String: &execution.StringOptionConfig{Default: "PDEF"}},
								}},
							},
						}
						if _, err := b.API.Create("env", sim.JobConfigs, jc); err != nil {
							panic(err)
						}
						job := &execution.Job{
							TypeMeta:   metav1.TypeMeta{APIVersion: "execution.furiko.io/v1alpha1", Kind: "Job"},
							ObjectMeta: metav1.ObjectMeta{Namespace: "default", Name: "j"},
							Spec:       execution.JobSpec{ConfigName: "jc"},
						}
						if optVal != "-" {
							ov, _ := json.Marshal(map[string]string{"o": optVal})
							job.Spec.OptionValues = string(ov)
						}
						subs := map[string]string{}
						if explicit != "-" {
							subs["option.o"] = explicit
						}
						if explicitCtx != "-" {
							subs["job.name"] = explicitCtx
						}
						if suffix != "-" {
							subs["suffix"] = suffix // a user variable outside the reserved prefixes, set to the empty string
						}
						if len(subs) > 0 {
							job.Spec.Substitutions = subs
						}
						desc := fmt.Sprintf("jobconfigDefault=%q optionValue=%q explicitSubstitution=%q explicitJobName=%q suffix=%q", jcDefault, optVal, explicit, explicitCtx, suffix)
						stored, err := b.API.Create("env", sim.Jobs, job)
						if err != nil {
							c.Violate("admission", fmt.Sprintf("%s: job rejected: %v", desc, err))
							continue
						}
						rj := stored.(*execution.Job)
						c.Nontrivial(desc)
						// expected value of ${option.o}
						wantO := jcDefault
						if optVal != "-" {
							wantO = optVal
						}
						if explicit != "-" {
							wantO = explicit
						}
						// A value that itself contains ${option.p} is substituted further by the remaining sources (p's default).
						wantO = strings.ReplaceAll(wantO, "${option.p}", "PDEF")
						wantJob := "j"
						if explicitCtx != "-" {
							wantJob = explicitCtx
						}
						wantSfx := "out${suffix}.log" // unknown names outside the reserved prefixes are left alone
						if suffix != "-" {
							wantSfx = "out" + suffix + ".log" // the empty string is a value like any other
						}
						want := []string{"o=" + wantO, "p=PDEF", "job=" + wantJob, "retry=0", "unk=|||", "other=${other.x} $HOME ${}", "sfx=" + wantSfx, "unk2=|||"}
						tmpl := rj.Spec.Template.TaskTemplate.Pod.ConvertToCoreSpec()
						var first string
						for rep := 0; rep < 16; rep++ {
							pod, err := podtaskexecutor.NewPod(rj, tmpl, tasks.TaskIndex{Retry: 0, Parallel: parallel.GetDefaultIndex()})
							if err != nil {
								c.Violate("newpod-error", desc+": "+err.Error())
								break
							}
							got := strings.Join(pod.Spec.Containers[0].Args, " ; ") + " ; img=" + pod.Spec.Containers[0].Image + " ; env=" + pod.Spec.Containers[0].Env[0].Value
							if rep == 0 {
								first = got
								exp := strings.Join(want, " ; ") + " ; img=img:" + wantO + " ; env=" + wantO + "/0"
								// Values that themselves contain variable syntax are substituted further in
								// an implementation-defined (but fixed) order: only determinism is asserted.
								if got != exp && !strings.Contains(optVal, "${") {
									c.Violate("precedence", fmt.Sprintf("%s: pod has %q, expected %q", desc, got, exp))
								}
								c.Sample(map[string]interface{}{"case": desc, "pod": got})
							} else if got != first {
								c.Violate("pod-nondeterministic", fmt.Sprintf("%s: repeated NewPod differs: %q vs %q", desc, first, got), "nested-var-in-value")
								break
							}
							// Another attempt built from the same in-memory Job in between must get its own values
							// and must not disturb this one (the template is shared by reference).
							if rep == 0 {
								other, err := podtaskexecutor.NewPod(rj, tmpl, tasks.TaskIndex{Retry: 1, Parallel: parallel.GetDefaultIndex()})
								if err != nil {
									c.Violate("newpod-error", desc+": "+err.Error())
									break
								}
								if a := strings.Join(other.Spec.Containers[0].Args, " ; "); !strings.Contains(a, "retry=1") {
									c.Violate("task-context-leaks", fmt.Sprintf("%s: the pod for retry 1 built after the pod for retry 0 has args %q", desc, a))
									break
								}
							}
						}
					}
				}
			}
		}
	}
}
