package puremc

import (
	"encoding/json"
	"fmt"

	"k8s.io/apimachinery/pkg/util/validation/field"

	execution "github.com/furiko-io/furiko/apis/execution/v1alpha1"
	"github.com/furiko-io/furiko/pkg/core/options"

	"verif/internal/pure"
)

func init() {
	pure.Register("C18", "option-composition", c18Compose)
}

// c18Compose: "exactly one value per option" over specs with several options. Every ordered
// triple of options drawn from one representative per type and shape (names o1..o3, so the
// same shape can appear twice) is evaluated against every combination of submitted values; the
// oracle is differential: the joint result must be the union of what each option yields when it
// is the only option of the spec and is given the same value (that single-option behaviour is
// decided against the reference by the option-evaluation unit), the joint evaluation is rejected
// exactly when one of the single ones is, an option never sees a neighbour's value, default or
// config, and submitted keys that name no option add nothing.
func c18Compose(c *pure.Ctx) {
	shapes := []execution.Option{
		{Type: execution.OptionTypeBool, Bool: &execution.BoolOptionConfig{Default: true, Format: execution.BoolOptionFormatYesNo}},
		{Type: execution.OptionTypeBool, Bool: &execution.BoolOptionConfig{Format: execution.BoolOptionFormatCustom, TrueVal: "--on"}},
		{Type: execution.OptionTypeString, String: &execution.StringOptionConfig{Default: "  d  ", TrimSpaces: true}},
		{Type: execution.OptionTypeString, Required: true},
		{Type: execution.OptionTypeSelect, Select: &execution.SelectOptionConfig{Default: "a", Values: []string{"a", "b"}}},
		{Type: execution.OptionTypeSelect, Required: true, Select: &execution.SelectOptionConfig{Values: []string{"b"}, AllowCustom: true}},
		{Type: execution.OptionTypeMulti, Multi: &execution.MultiOptionConfig{Default: []string{"a", "b"}, Values: []string{"a", "b", "c"}, Delimiter: ","}},
		{Type: execution.OptionTypeMulti, Required: true, Multi: &execution.MultiOptionConfig{Values: []string{"a"}, AllowCustom: true, Delimiter: " "}},
		{Type: execution.OptionTypeDate, Date: &execution.DateOptionConfig{Format: "YYYY-MM-DD"}},
	}
	values := []string{"-", "null", `"a"`, `"zz"`, `true`, `["a","b"]`, `"2060-01-02T03:04:05Z"`}
	decode := func(vs string) (interface{}, bool) {
		if vs == "-" {
			return nil, false
		}
		var v interface{}
		if err := json.Unmarshal([]byte(vs), &v); err != nil {
			panic(err)
		}
		return v, true
	}
	type single struct {
		ok  bool
		val string
	}
	// single-option behaviour, memoised per (shape, name, value)
	memo := map[string]single{}
	alone := func(si int, name, vs string) single {
		k := fmt.Sprintf("%d|%s|%s", si, name, vs)
		if r, ok := memo[k]; ok {
			return r
		}
		o := shapes[si]
		o.Name = name
		spec := options.MutateDefaultingOptionSpec(&execution.OptionSpec{Options: []execution.Option{o}})
		sub := map[string]interface{}{}
		if v, present := decode(vs); present {
			sub[name] = v
		}
		got, errs := options.EvaluateOptions(sub, spec, field.NewPath("optionValues"))
		r := single{ok: len(errs) == 0, val: got["option."+name]}
		memo[k] = r
		return r
	}
	names := []string{"o1", "o2", "o3"}
	n := len(shapes)
	for a := 0; a < n; a++ {
		for b := 0; b < n; b++ {
			for d := 0; d < n; d++ {
				if c.Expired() {
					return
				}
				idx := []int{a, b, d}
				var opts []execution.Option
				for i, si := range idx {
					o := shapes[si]
					o.Name = names[i]
					opts = append(opts, o)
				}
				spec := options.MutateDefaultingOptionSpec(&execution.OptionSpec{Options: opts})
				if errs := options.ValidateOptionSpec(spec, field.NewPath("option")); len(errs) > 0 {
					c.Violate("composition-spec-rejected", fmt.Sprintf("shapes %v: %v", idx, errs.ToAggregate()))
					continue
				}
				defaults, derr := options.MakeDefaultOptions(spec)
				for _, v1 := range values {
					for _, v2 := range values {
						for _, v3 := range values {
							c.Eval()
							vs := []string{v1, v2, v3}
							sub := map[string]interface{}{"unrelated": "x"}
							wantOK := true
							want := map[string]string{}
							allAbsent := true
							for i := range idx {
								if v, present := decode(vs[i]); present {
									sub[names[i]] = v
									if v != nil {
										allAbsent = false
									}
								}
								r := alone(idx[i], names[i], vs[i])
								wantOK = wantOK && r.ok
								want["option."+names[i]] = r.val
							}
							desc := fmt.Sprintf("shapes=%v values=%v", idx, vs)
							got, errs := options.EvaluateOptions(sub, spec, field.NewPath("optionValues"))
							if wantOK {
								c.Nontrivial(fmt.Sprintf("%v", want))
							}
							switch {
							case len(errs) > 0 && wantOK:
								c.Violate("composition-rejects", fmt.Sprintf("%s: jointly rejected (%v), each option alone is accepted", desc, errs.ToAggregate()))
							case len(errs) == 0 && !wantOK:
								c.Violate("composition-accepts", fmt.Sprintf("%s: jointly accepted as %v, an option alone is rejected", desc, got))
							case len(errs) == 0:
								if len(got) != len(want) {
									c.Violate("one-value-per-option", fmt.Sprintf("%s: result %v, want %v", desc, got, want))
								}
								for k, w := range want {
									// formatted dates of an absent value are empty either way; given dates format the same instant
									if got[k] != w {
										c.Violate("composition-value", fmt.Sprintf("%s: %s=%q jointly, %q alone", desc, k, got[k], w))
									}
								}
								if allAbsent {
									c.Count("default-agreement")
									if derr != nil {
										c.Violate("default-agreement", fmt.Sprintf("%s: evaluation succeeds but MakeDefaultOptions fails: %v", desc, derr))
									} else if fmt.Sprint(defaults) != fmt.Sprint(got) {
										c.Violate("default-agreement", fmt.Sprintf("%s: evaluation of absent values yields %v, defaults are %v", desc, got, defaults))
									}
								}
							}
						}
					}
				}
			}
		}
	}
}
