package puremc

import (
	"fmt"
	"time"

	"k8s.io/utils/pointer"

	configv1alpha1 "github.com/furiko-io/furiko/apis/config/v1alpha1"
	execution "github.com/furiko-io/furiko/apis/execution/v1alpha1"
	jobutil "github.com/furiko-io/furiko/pkg/execution/util/job"

	"verif/internal/pure"
)

func init() {
	pure.Register("C13", "effective-ttl-all-sources", c13EffectiveTTL)
}

// c13EffectiveTTL: "TTL deletion is never early" depends on the effective TTL, the Job's own value
// if it has one, else the controller default, else zero. The world scenarios run through the real
// configuration pipeline, whose built-in defaults always carry a default TTL, so a configuration
// without one never reaches the reconciler there; here the helper the reconciler calls is given
// every combination of {absent, 0, 60, 7200} for the Job and {absent, 0, 120, 3600} for the
// configuration, against the three-line reference.
func c13EffectiveTTL(c *pure.Ctx) {
	vals := []*int64{nil, pointer.Int64(0), pointer.Int64(60), pointer.Int64(7200)}
	cfgs := []*int64{nil, pointer.Int64(0), pointer.Int64(120), pointer.Int64(3600)}
	show := func(p *int64) string {
		if p == nil {
			return "absent"
		}
		return fmt.Sprint(*p)
	}
	for _, jv := range vals {
		for _, cv := range cfgs {
			c.Eval()
			rj := &execution.Job{Spec: execution.JobSpec{TTLSecondsAfterFinished: jv}}
			cfg := &configv1alpha1.JobExecutionConfig{DefaultTTLSecondsAfterFinished: cv}
			var want time.Duration
			switch {
			case jv != nil:
				want = time.Duration(*jv) * time.Second
			case cv != nil:
				want = time.Duration(*cv) * time.Second
			}
			got := jobutil.GetTTLAfterFinished(rj, cfg)
			c.Nontrivial(fmt.Sprint(want))
			if got != want {
				c.Violate("effective-ttl", fmt.Sprintf("job ttl=%s, configured default=%s: effective TTL %v, expected %v", show(jv), show(cv), got, want))
			}
		}
	}
}
