package puremc

import (
	"context"
	"encoding/json"
	"fmt"
	"strings"
	"time"

	jsonpatch "github.com/evanphx/json-patch"
	admissionv1 "k8s.io/api/admission/v1"
	corev1 "k8s.io/api/core/v1"
	metav1 "k8s.io/apimachinery/pkg/apis/meta/v1"
	"k8s.io/apimachinery/pkg/runtime"

	configv1alpha1 "github.com/furiko-io/furiko/apis/config/v1alpha1"
	execution "github.com/furiko-io/furiko/apis/execution/v1alpha1"
	"github.com/furiko-io/furiko/pkg/execution/mutation"

	"verif/internal/mc"
	"verif/internal/pure"
	"verif/internal/sim"
)

func init() {
	pure.Register("C16", "job-admission-lattice", c16Jobs)
	pure.Register("C16", "jobconfig-admission-histories", c16JobConfigs)
}

type obj = map[string]interface{}

func clone(v interface{}) interface{} {
	b, _ := json.Marshal(v)
	var out interface{}
	_ = json.Unmarshal(b, &out)
	return out
}

type admitResult struct {
	allowed bool
	patched []byte // raw object after applying the returned patch
	patch   []byte
	err     string
}

// admit sends a raw request to a real mutating webhook and applies the patch the way the API server does.
func admit(h sim.Handler, kind metav1.GroupVersionKind, op admissionv1.Operation, raw, oldRaw []byte) admitResult {
	req := &admissionv1.AdmissionRequest{UID: "u", Kind: kind, Operation: op, Namespace: "default",
		Object: runtime.RawExtension{Raw: raw}, OldObject: runtime.RawExtension{Raw: oldRaw}}
	resp, err := h.Handle(context.Background(), req)
	if err != nil {
		return admitResult{err: "handler error: " + err.Error()}
	}
	if !resp.Allowed {
		msg := ""
		if resp.Result != nil {
			msg = resp.Result.Message
		}
		return admitResult{err: "denied: " + msg}
	}
	out := raw
	if len(resp.Patch) > 0 {
		p, err := jsonpatch.DecodePatch(resp.Patch)
		if err != nil {
			return admitResult{allowed: true, patch: resp.Patch, err: "undecodable patch: " + err.Error()}
		}
		out, err = p.Apply(raw)
		if err != nil {
			return admitResult{allowed: true, patch: resp.Patch, err: "patch does not apply to the submitted object: " + err.Error()}
		}
	}
	return admitResult{allowed: true, patched: out, patch: resp.Patch}
}

var jobKind = metav1.GroupVersionKind{Group: "execution.furiko.io", Version: "v1alpha1", Kind: "Job"}
var jobConfigKind = metav1.GroupVersionKind{Group: "execution.furiko.io", Version: "v1alpha1", Kind: "JobConfig"}

func canonJob(raw []byte) (string, *execution.Job, error) {
	rj := &execution.Job{}
	if err := json.Unmarshal(raw, rj); err != nil {
		return "", nil, err
	}
	b, _ := json.Marshal(rj)
	return string(b), rj, nil
}

func c16World() (*mc.Base, map[string]*execution.JobConfig) {
	cfgs := map[configv1alpha1.ConfigName]runtime.Object{
		configv1alpha1.JobExecutionConfigName: &configv1alpha1.JobExecutionConfig{
			DefaultTTLSecondsAfterFinished: i64p(3600), DefaultPendingTimeoutSeconds: i64p(900), ForceDeleteTaskTimeoutSeconds: i64p(900)},
	}
	b := mc.NewBase(cfgs, true)
	jcs := map[string]*execution.JobConfig{}
	mk := func(name string, policy execution.ConcurrencyPolicy, opt *execution.OptionSpec) {
		actor := "env"
		if name == "jcraw" {
			actor = "seed" // stored as submitted, before any defaulting (e.g. created while the webhook was not installed)
		}
		jc := &execution.JobConfig{
			TypeMeta:   metav1.TypeMeta{APIVersion: "execution.furiko.io/v1alpha1", Kind: "JobConfig"},
			ObjectMeta: metav1.ObjectMeta{Namespace: "default", Name: name},
			Spec: execution.JobConfigSpec{
				Concurrency: execution.ConcurrencySpec{Policy: policy},
				Template: execution.JobTemplateSpec{
					ObjectMeta: metav1.ObjectMeta{Labels: map[string]string{"from": "template"}, Annotations: map[string]string{"note": "template"}},
					Spec: execution.JobTemplate{MaxAttempts: i64p(3), TaskTemplate: execution.TaskTemplate{Pod: &execution.PodTemplateSpec{
						Spec: corev1.PodSpec{Containers: []corev1.Container{{Name: "c", Image: "img", Args: []string{"${option.o}"}}}}}}},
				},
				Option: opt,
			},
		}
		stored, err := b.API.Create(actor, sim.JobConfigs, jc)
		if err != nil {
			panic(err)
		}
		jcs[name] = stored.(*execution.JobConfig)
	}
	mk("jc", execution.ConcurrencyPolicyForbid, nil)
	mk("jcraw", execution.ConcurrencyPolicyForbid, nil)
	mk("jcopt", execution.ConcurrencyPolicyEnqueue, &execution.OptionSpec{Options: []execution.Option{
		{Type: execution.OptionTypeString, Name: "o", String: &execution.StringOptionConfig{Default: "DEF"}},
		{Type: execution.OptionTypeString, Name: "r", Required: true},
	}})
	return b, jcs
}

func i64p(v int64) *int64 { return &v }

type variant struct {
	name string
	val  interface{} // nil = absent
}

func c16Jobs(c *pure.Ctx) {
	b, jcs := c16World()
	h := b.Webhooks.JobMutating
	containers := []interface{}{obj{"name": "c", "image": "img"}}
	axes := []struct {
		path     string
		variants []variant
	}{
		{"spec.type", []variant{{"absent", nil}, {"Adhoc", "Adhoc"}, {"Scheduled", "Scheduled"}}},
		{"spec.ttlSecondsAfterFinished", []variant{{"absent", nil}, {"0", 0}, {"60", 60}}},
		{"spec.startPolicy", []variant{{"absent", nil}, {"empty", obj{}}, {"Enqueue", obj{"concurrencyPolicy": "Enqueue"}}, {"Allow+startAfter", obj{"concurrencyPolicy": "Allow", "startAfter": "2060-01-01T01:00:00Z"}}}},
		{"spec.template", []variant{
			{"absent", nil}, {"empty", obj{}}, {"taskTemplate-empty", obj{"taskTemplate": obj{}}}, {"pod-empty", obj{"taskTemplate": obj{"pod": obj{}}}},
			{"pod-spec-empty", obj{"taskTemplate": obj{"pod": obj{"spec": obj{}}}}},
			{"pod-containers", obj{"taskTemplate": obj{"pod": obj{"spec": obj{"containers": containers}}}}},
			{"full", obj{"maxAttempts": 2, "taskPendingTimeoutSeconds": 0, "parallelism": obj{"withCount": 2}, "taskTemplate": obj{"pod": obj{"metadata": obj{"labels": obj{"p": "q"}}, "spec": obj{"restartPolicy": "OnFailure", "containers": containers}}}}},
		}},
		{"spec.configName", []variant{{"absent", nil}, {"jc", "jc"}, {"jcopt", "jcopt"}, {"jcraw", "jcraw"}, {"missing", "missing"}}},
		{"spec.optionValues", []variant{{"absent", nil}, {"json", `{"o":"OPT","r":"R"}`}, {"yaml", "r: R\n"}, {"junk", "{{{"}}},
		{"spec.substitutions", []variant{{"absent", nil}, {"explicit", obj{"option.o": "EXPL", "job.name": "X"}}}},
		{"metadata.labels", []variant{{"absent", nil}, {"set", obj{"a": "b", "from": "user"}},
			// copied from an older Job: the reserved label still names another (recreated) JobConfig
			{"stale-uid", obj{"a": "b", "from": "user", "execution.furiko.io/job-config-uid": "00000000-stale-uid"}}}},
		{"metadata.annotations", []variant{{"absent", nil}, {"set", obj{"x": "y"}}}},
		{"metadata.finalizers", []variant{{"absent", nil}, {"other", []interface{}{"example.com/other"}}, {"ours", []interface{}{"execution.furiko.io/delete-dependents-finalizer"}}}},
	}
	if !c.Spec.Thorough {
		// quick: drop one variant of the two largest axes to keep the product around 10^4
		axes[1].variants = axes[1].variants[:2]
		axes[9].variants = axes[9].variants[:2]
	}
	choice := make([]int, len(axes))
	set := func(root obj, path string, v interface{}) {
		parts := strings.Split(path, ".")
		cur := root
		for _, p := range parts[:len(parts)-1] {
			next, ok := cur[p].(obj)
			if !ok {
				next = obj{}
				cur[p] = next
			}
			cur = next
		}
		cur[parts[len(parts)-1]] = clone(v)
	}
	n := 0
	for {
		if c.Expired() {
			return
		}
		// "spec" is always present (a Job without any spec is not a well-formed submission).
		raw := obj{"apiVersion": "execution.furiko.io/v1alpha1", "kind": "Job", "metadata": obj{"name": "j", "namespace": "default"}, "spec": obj{}}
		var names []string
		pick := map[string]string{}
		for i, ax := range axes {
			v := ax.variants[choice[i]]
			names = append(names, ax.path+"="+v.name)
			pick[ax.path] = v.name
			if v.val != nil {
				set(raw, ax.path, v.val)
			}
		}
		desc := strings.Join(names, " ")
		rawBytes, _ := json.Marshal(raw)
		c.Eval()
		n++
		res := admit(h, jobKind, admissionv1.Create, rawBytes, nil)
		c16JudgeJob(c, b, jcs, desc, pick, rawBytes, res)
		if n%3001 == 1 {
			c.Sample(map[string]interface{}{"request": string(rawBytes), "patch": string(res.patch), "outcome": res.err})
		}
		i := len(axes) - 1
		for ; i >= 0; i-- {
			choice[i]++
			if choice[i] < len(axes[i].variants) {
				break
			}
			choice[i] = 0
		}
		if i < 0 {
			break
		}
	}
	// states = distinct admitted request shapes; transitions = admission steps (create, resubmit) executed on the real webhook
	c.SetStates(c.Distinct())
}

func c16JudgeJob(c *pure.Ctx, b *mc.Base, jcs map[string]*execution.JobConfig, desc string, pick map[string]string, raw []byte, res admitResult) {
	h := b.Webhooks.JobMutating
	// Defaulting works on the submitted object; the JobConfigs in the webhook's informer cache are shared
	// with every other request and must come out of an admission exactly as they went in.
	if keys := b.Webhooks.Ctx.Set.JobConfigs.MutatedKeys(); len(keys) > 0 {
		c.Violate("cache-object-mutated", fmt.Sprintf("%s: admission changed the cached JobConfig(s) %v in place", desc, keys))
		return
	}
	cfgName := pick["spec.configName"]
	if !res.allowed {
		c.Count("denied")
		// Denials must have a reason we can name.
		legit := cfgName == "missing" || pick["spec.optionValues"] == "junk" && cfgName != "absent" ||
			(cfgName == "jcopt" && pick["spec.optionValues"] != "json" && pick["spec.optionValues"] != "yaml")
		if !legit {
			c.Violate("unexpected-denial", fmt.Sprintf("%s: %s", desc, res.err))
		}
		return
	}
	if res.err != "" {
		c.Violate("patch-faithful", fmt.Sprintf("patch-parent-missing: %s: %s; patch %s", desc, res.err, res.patch))
		return
	}
	c.Count("allowed")
	c.Nontrivial(desc)
	// (P1) the patch applied to the submitted object yields exactly the object the mutator produced.
	_, typedIn, err := canonJob(raw)
	if err != nil {
		panic(err)
	}
	mutated := typedIn.DeepCopy()
	gotCanon, got, err := canonJob(res.patched)
	if err != nil {
		c.Violate("patch-faithful", fmt.Sprintf("%s: patched object does not decode: %v", desc, err))
		return
	}
	wantCanon := c16Mutate(b, mutated)
	if gotCanon != wantCanon {
		c.Violate("patch-faithful", fmt.Sprintf("%s: patched request %s differs from the defaulted object %s (patch %s)", desc, gotCanon, wantCanon, res.patch))
		return
	}
	// (P2) idempotent: re-submitting the result yields no further change.
	again := admit(h, jobKind, admissionv1.Create, res.patched, nil)
	if !again.allowed || again.err != "" {
		c.Violate("idempotent", fmt.Sprintf("%s: re-submitting the defaulted object fails: %s", desc, again.err))
		return
	}
	if againCanon, _, _ := canonJob(again.patched); againCanon != gotCanon {
		c.Violate("idempotent", fmt.Sprintf("%s: re-submitting the defaulted object changes it again: patch %s", desc, again.patch))
		return
	}
	// (P3) field oracle.
	fail := func(what string) { c.Violate("defaulting", fmt.Sprintf("%s: %s; result %s", desc, what, gotCanon)) }
	hasFin := false
	for _, f := range got.Finalizers {
		if f == "execution.furiko.io/delete-dependents-finalizer" {
			hasFin = true
		}
	}
	if !hasFin {
		fail("delete-dependents finalizer missing")
	}
	if pick["metadata.finalizers"] == "other" && len(got.Finalizers) != 2 {
		fail("submitter's finalizer lost")
	}
	wantType := "Adhoc"
	if pick["spec.type"] != "absent" {
		wantType = pick["spec.type"]
	}
	if string(got.Spec.Type) != wantType {
		fail("type is " + string(got.Spec.Type))
	}
	switch pick["spec.ttlSecondsAfterFinished"] {
	case "absent":
		if got.Spec.TTLSecondsAfterFinished == nil || *got.Spec.TTLSecondsAfterFinished != 3600 {
			fail("ttl default not applied")
		}
	case "0":
		if got.Spec.TTLSecondsAfterFinished == nil || *got.Spec.TTLSecondsAfterFinished != 0 {
			fail("explicit ttl 0 not kept")
		}
	}
	if got.Spec.Template == nil || got.Spec.Template.MaxAttempts == nil || got.Spec.Template.TaskPendingTimeoutSeconds == nil {
		fail("template/maxAttempts/pendingTimeout defaults missing")
		return
	}
	jc := jcs[cfgName]
	if jc == nil {
		wantAtt, wantPT := int64(1), int64(900)
		if pick["spec.template"] == "full" {
			wantAtt, wantPT = 2, 0
		}
		if *got.Spec.Template.MaxAttempts != wantAtt || *got.Spec.Template.TaskPendingTimeoutSeconds != wantPT {
			fail(fmt.Sprintf("maxAttempts=%d pendingTimeout=%d", *got.Spec.Template.MaxAttempts, *got.Spec.Template.TaskPendingTimeoutSeconds))
		}
		if pod := got.Spec.Template.TaskTemplate.Pod; pod != nil {
			want := corev1.RestartPolicyNever
			if pick["spec.template"] == "full" {
				want = corev1.RestartPolicyOnFailure
			}
			if pod.Spec.RestartPolicy != want {
				fail("restartPolicy is " + string(pod.Spec.RestartPolicy))
			}
		}
		if p := got.Spec.Template.Parallelism; p != nil && p.CompletionStrategy != execution.AllSuccessful {
			fail("completion strategy default missing")
		}
		if len(got.OwnerReferences) != 0 {
			fail("owner reference without configName")
		}
		return
	}
	// configName expansion
	if got.Spec.ConfigName != "" {
		fail("configName not cleared")
	}
	if *got.Spec.Template.MaxAttempts != 3 || got.Spec.Template.TaskTemplate.Pod == nil || got.Spec.Template.TaskTemplate.Pod.Spec.Containers[0].Image != "img" {
		fail("template is not the JobConfig's template")
	}
	if len(got.OwnerReferences) != 1 || got.OwnerReferences[0].UID != jc.UID || got.OwnerReferences[0].Controller == nil || !*got.OwnerReferences[0].Controller || got.OwnerReferences[0].Kind != "JobConfig" {
		fail("owner reference to the JobConfig missing or wrong")
	}
	if got.Labels["execution.furiko.io/job-config-uid"] != string(jc.UID) {
		fail("JobConfig UID label missing or wrong")
	}
	if pick["metadata.labels"] != "absent" && (got.Labels["a"] != "b" || got.Labels["from"] != "user") {
		fail("submitter's labels do not take precedence over the template's")
	}
	if pick["metadata.labels"] == "absent" && got.Labels["from"] != "template" {
		fail("template labels not applied")
	}
	wantPolicy := string(jc.Spec.Concurrency.Policy)
	switch pick["spec.startPolicy"] {
	case "Enqueue":
		wantPolicy = "Enqueue"
	case "Allow+startAfter":
		wantPolicy = "Allow"
	}
	if got.Spec.StartPolicy == nil || string(got.Spec.StartPolicy.ConcurrencyPolicy) != wantPolicy {
		fail("concurrency policy should be " + wantPolicy)
	}
	if pick["spec.startPolicy"] == "Allow+startAfter" && got.Spec.StartPolicy.StartAfter == nil {
		fail("startAfter lost")
	}
	subs := got.Spec.Substitutions
	if cfgName == "jcopt" {
		wantO := "DEF"
		if pick["spec.optionValues"] == "json" {
			wantO = "OPT"
		}
		if pick["spec.substitutions"] == "explicit" {
			wantO = "EXPL"
		}
		if subs["option.o"] != wantO || subs["option.r"] != "R" {
			fail(fmt.Sprintf("substitutions %v: option.o should be %s and option.r R", subs, wantO))
		}
	}
	if subs["jobconfig.name"] != cfgName || subs["jobconfig.uid"] != string(jc.UID) {
		fail(fmt.Sprintf("jobconfig context variables missing: %v", subs))
	}
	if pick["spec.substitutions"] == "explicit" && subs["job.name"] != "X" {
		fail("explicit substitution lost")
	}
}

// c16Mutate runs the real patcher on the typed object (what the webhook computes internally) and returns its canonical JSON.
func c16Mutate(b *mc.Base, rj *execution.Job) string {
	mutation.NewJobPatcher(b.Webhooks.Ctx).Patch(admissionv1.Create, nil, rj)
	raw, _ := json.Marshal(rj)
	return string(raw)
}

func jobConfigPatch(b *mc.Base, op admissionv1.Operation, old, rjc *execution.JobConfig) *execution.JobConfig {
	mutation.NewJobConfigPatcher(b.Webhooks.Ctx).Patch(op, old, rjc)
	return rjc
}

// ---- JobConfig histories ----

func c16JobConfigs(c *pure.Ctx) {
	b, _ := c16World()
	h := b.Webhooks.JobConfigMutating
	t0 := sim.Epoch
	podTmpl := obj{"taskTemplate": obj{"pod": obj{"spec": obj{"containers": []interface{}{obj{"name": "c", "image": "img"}}}}}}
	schedules := []variant{
		{"absent", nil},
		{"cron", obj{"cron": obj{"expression": "*/5 * * * *"}, "disabled": false}},
		{"cron-disabled", obj{"cron": obj{"expression": "*/5 * * * *"}, "disabled": true}},
		{"cron-lastUpdated-past", obj{"cron": obj{"expression": "*/5 * * * *"}, "disabled": false, "lastUpdated": "2059-12-31T00:00:00Z"}},
		{"cron-lastUpdated-future", obj{"cron": obj{"expression": "*/5 * * * *"}, "disabled": false, "lastUpdated": "2060-06-01T00:00:00Z"}},
		{"cron-constraints", obj{"cron": obj{"expressions": []interface{}{"0 * * * *", "30 * * * *"}, "timezone": "Asia/Singapore"}, "disabled": false, "constraints": obj{"notBefore": "2060-02-01T00:00:00Z"}}},
	}
	optionsV := []variant{
		{"absent", nil},
		{"bool-no-format", obj{"options": []interface{}{obj{"type": "Bool", "name": "b"}}}},
		{"bool-format", obj{"options": []interface{}{obj{"type": "Bool", "name": "b", "bool": obj{"default": true, "format": "YesNo"}}}}},
		{"string", obj{"options": []interface{}{obj{"type": "String", "name": "s", "string": obj{"default": "d"}}}}},
	}
	templates := []variant{{"pod", podTmpl}, {"with-attempts", func() obj { o := clone(podTmpl).(obj); o["maxAttempts"] = 2; return o }()}}
	edits := []string{"none", "label-only", "expr", "disable-toggle", "add-constraints", "drop-schedule", "add-schedule", "timezone", "expr+future-lastUpdated", "unchanged+future-lastUpdated"}
	for _, sch := range schedules {
		for _, opt := range optionsV {
			for _, tm := range templates {
				raw := obj{"apiVersion": "execution.furiko.io/v1alpha1", "kind": "JobConfig", "metadata": obj{"name": "x", "namespace": "default"},
					"spec": obj{"concurrency": obj{"policy": "Allow"}, "template": obj{"spec": clone(tm.val)}}}
				if sch.val != nil {
					raw["spec"].(obj)["schedule"] = clone(sch.val)
				}
				if opt.val != nil {
					raw["spec"].(obj)["option"] = clone(opt.val)
				}
				desc := fmt.Sprintf("schedule=%s option=%s template=%s", sch.name, opt.name, tm.name)
				rawBytes, _ := json.Marshal(raw)
				b.Clock.SetTime(t0)
				c.Eval()
				res := admit(h, jobConfigKind, admissionv1.Create, rawBytes, nil)
				if !res.allowed || res.err != "" {
					c.Violate("jobconfig-create", fmt.Sprintf("patch-parent-missing: %s: %s patch %s", desc, res.err, res.patch))
					continue
				}
				c.Nontrivial(desc)
				created := &execution.JobConfig{}
				if err := json.Unmarshal(res.patched, created); err != nil {
					c.Violate("jobconfig-create", desc+": "+err.Error())
					continue
				}
				// patch-faithful against the real patcher on the typed object
				typedIn := &execution.JobConfig{}
				_ = json.Unmarshal(rawBytes, typedIn)
				want := jobConfigPatch(b, admissionv1.Create, nil, typedIn)
				wb, _ := json.Marshal(want)
				gb, _ := json.Marshal(created)
				if string(wb) != string(gb) {
					c.Violate("patch-faithful", fmt.Sprintf("jobconfig %s: patched request %s differs from defaulted object %s", desc, gb, wb))
				}
				// lastUpdated stamped exactly when a schedule is created
				if created.Spec.Schedule != nil {
					lu := created.Spec.Schedule.LastUpdated
					switch sch.name {
					case "cron-lastUpdated-future":
						if lu == nil || !lu.Time.Equal(time.Date(2060, 6, 1, 0, 0, 0, 0, time.UTC)) {
							c.Violate("last-updated", desc+": a future lastUpdated must be kept on create")
						}
					default:
						if lu == nil || !lu.Time.Equal(t0) {
							c.Violate("last-updated", fmt.Sprintf("%s: lastUpdated must be stamped with the creation time, got %v", desc, lu))
						}
					}
				}
				// idempotent on resubmission (same instant)
				again := admit(h, jobConfigKind, admissionv1.Create, res.patched, nil)
				if !again.allowed || again.err != "" || len(again.patch) > 0 && string(again.patched) != string(res.patched) {
					ab, _ := json.Marshal(json.RawMessage(again.patched))
					if c1, c2 := canonJC(again.patched), canonJC(res.patched); c1 != c2 {
						c.Violate("idempotent", fmt.Sprintf("jobconfig %s: resubmission changes the object: %s (patch %s) %s", desc, again.err, again.patch, ab))
					}
				}
				// updates, one hour later
				for _, ed := range edits {
					b.Clock.SetTime(t0.Add(time.Hour))
					var upd obj
					_ = json.Unmarshal(res.patched, &upd)
					spec := upd["spec"].(obj)
					sched, has := spec["schedule"].(obj)
					changed := false
					switch ed {
					case "none":
					case "label-only":
						upd["metadata"].(obj)["labels"] = obj{"l": "v"}
					case "expr":
						if !has || sched["cron"] == nil {
							continue
						}
						cr := sched["cron"].(obj)
						delete(cr, "expressions")
						cr["expression"] = "*/7 * * * *"
						changed = true
					case "expr+future-lastUpdated", "unchanged+future-lastUpdated":
						if !has || sched["cron"] == nil {
							continue
						}
						if ed == "expr+future-lastUpdated" {
							cr := sched["cron"].(obj)
							delete(cr, "expressions")
							cr["expression"] = "*/9 * * * *"
						}
						sched["lastUpdated"] = "2060-09-09T00:00:00Z"
					case "disable-toggle":
						if !has {
							continue
						}
						d, _ := sched["disabled"].(bool)
						sched["disabled"] = !d
						changed = true
					case "add-constraints":
						if !has {
							continue
						}
						sched["constraints"] = obj{"notAfter": "2061-01-01T00:00:00Z"}
						changed = true
					case "timezone":
						if !has || sched["cron"] == nil {
							continue
						}
						sched["cron"].(obj)["timezone"] = "UTC+8"
						changed = true
					case "drop-schedule":
						if !has {
							continue
						}
						delete(spec, "schedule")
					case "add-schedule":
						if has {
							continue
						}
						spec["schedule"] = obj{"cron": obj{"expression": "0 0 * * *"}, "disabled": false}
						changed = true
					}
					updRaw, _ := json.Marshal(upd)
					c.Eval()
					ur := admit(h, jobConfigKind, admissionv1.Update, updRaw, res.patched)
					udesc := desc + " update=" + ed
					if !ur.allowed || ur.err != "" {
						c.Violate("jobconfig-update", fmt.Sprintf("patch-parent-missing: %s: %s patch %s", udesc, ur.err, ur.patch))
						continue
					}
					c.Nontrivial(udesc)
					after := &execution.JobConfig{}
					_ = json.Unmarshal(ur.patched, after)
					if after.Spec.Schedule == nil {
						continue
					}
					lu := after.Spec.Schedule.LastUpdated
					var before *metav1.Time
					if created.Spec.Schedule != nil {
						before = created.Spec.Schedule.LastUpdated
					}
					switch {
					case ed == "expr+future-lastUpdated" || ed == "unchanged+future-lastUpdated":
						// an explicitly submitted future lastUpdated is kept as submitted
						if lu == nil || !lu.Time.Equal(time.Date(2060, 9, 9, 0, 0, 0, 0, time.UTC)) {
							c.Violate("last-updated", fmt.Sprintf("%s: the submitted future lastUpdated must be kept, got %v", udesc, lu))
						}
					case changed && sch.name == "cron-lastUpdated-future":
						if lu == nil || !lu.Equal(before) {
							c.Violate("last-updated", udesc+": a future lastUpdated must be kept")
						}
					case changed:
						if lu == nil || !lu.Time.Equal(t0.Add(time.Hour)) {
							c.Violate("last-updated", fmt.Sprintf("%s: schedule changed, lastUpdated must be stamped with the update time, got %v", udesc, lu))
						}
					default:
						if !lu.Equal(before) {
							c.Violate("last-updated", fmt.Sprintf("%s: schedule unchanged, lastUpdated must not move (%v -> %v)", udesc, before, lu))
						}
					}
				}
				c.Sample(map[string]interface{}{"request": string(rawBytes), "patch": string(res.patch)})
			}
		}
	}
	c.SetStates(c.Distinct())
}

func canonJC(raw []byte) string {
	jc := &execution.JobConfig{}
	_ = json.Unmarshal(raw, jc)
	b, _ := json.Marshal(jc)
	return string(b)
}
