package worlds

import (
	"fmt"

	"verif/internal/mc"
)

func jobBase(name string) JobScenario {
	return JobScenario{
		Name:        name,
		Parallelism: "none",
		MaxAttempts: 1,
		PodActions:  []string{"quick"},
		MaxFail:     1,
		Horizon:     600,
	}
}

var fullPod = []string{"run", "succeed", "fail"}

func init() {
	// C08: per index one live task, ordered bounded retries.
	register("C08", func(thorough bool) []Scenario {
		var out []Scenario
		add := func(s JobScenario) { out = append(out, mk("job", "C08/"+s.Name, s)) }
		for _, shape := range []string{"none", "count2", "keys2", "matrix2"} {
			for _, strat := range []string{"AllSuccessful", "AnySuccessful"} {
				if shape == "none" && strat == "AnySuccessful" {
					continue
				}
				for _, att := range []int64{1, 2, 3} {
					for _, delay := range []int64{0, 10} {
						if att == 1 && delay > 0 {
							continue
						}
						if att == 3 && !(thorough || shape == "none") {
							continue
						}
						s := jobBase(fmt.Sprintf("%s-%s-att%d-delay%d", shape, strat, att, delay))
						s.Parallelism, s.Strategy, s.MaxAttempts, s.RetryDelay = shape, strat, att, delay
						s.MaxFail = int(att) * 2
						if thorough {
							// Thorough tier: pod disappearance and one lagging cache everywhere; the full
							// kubelet alphabet where the space stays small, otherwise pods finish straight
							// from pending. Every unit is sized to finish (DESIGN.md 10.9).
							s.MaxVanish = 1
							s.Budget = mc.Budget{Lag: 1}
							switch {
							case shape == "none":
								s.PodActions = append(append([]string{}, fullPod...), "vanish")
								s.Budget.Lag = 2
							case att == 1:
								s.PodActions = append(append([]string{}, fullPod...), "vanish")
							default:
								if shape != "count2" && (att == 3 || delay > 0) {
									continue // keys/matrix only differ from count in how indexes are named
								}
								s.PodActions = []string{"quick", "vanish"}
								s.MaxFail = int(att)
								switch {
								case att == 2 && delay > 0:
									s.Budget = mc.Budget{} // waiting out the delay multiplies the instants: fresh caches
								case att == 3 && delay == 0:
									s.PodActions, s.MaxVanish = []string{"quick"}, 0
								case att == 3:
									s.PodActions, s.MaxVanish = []string{"quick"}, 0
									s.Budget = mc.Budget{}
								}
							}
							add(s)
							continue
						}
						// Quick tier. Fresh caches: full kubelet alphabet where the space is small,
						// otherwise pods finish straight from pending ("quick").
						small := att == 1 || (shape == "none" && att == 2)
						if small {
							s.PodActions = append(append([]string{}, fullPod...), "vanish")
							s.MaxVanish = 1
						}
						if shape != "none" && shape != "count2" && att == 2 && delay > 0 {
							continue
						}
						add(s)
						// Lagging caches (one undelivered event), reduced kubelet alphabet.
						if (shape == "count2" && att <= 2 && delay == 0) || (shape == "none" && att <= 2) {
							l := s
							l.Name += "-lag1"
							l.PodActions = []string{"quick"}
							l.MaxVanish = 0
							l.MaxFail = int(att)
							l.Budget = mc.Budget{Lag: 1}
							add(l)
						}
					}
				}
			}
		}
		{
			s := jobBase("none-att2-delay10-kill-probes")
			s.MaxAttempts, s.RetryDelay, s.MaxFail = 2, 10, 2
			s.PodActions = fullPod
			s.Kill, s.MaxKill = []string{"0", "30"}, 1
			s.Probes, s.MaxResync = true, 1
			add(s)
			s = jobBase("count2-att2-delay10-probes")
			s.Parallelism, s.MaxAttempts, s.RetryDelay, s.MaxFail = "count2", 2, 10, 1
			s.Probes, s.MaxResync = true, 1
			add(s)
		}
		{
			pv := jobBase("count2-Any-att2-vanish")
			pv.Parallelism, pv.Strategy, pv.MaxAttempts, pv.MaxFail = "count2", "AnySuccessful", 2, 1
			pv.PodActions, pv.MaxVanish = []string{"quick", "run", "vanish"}, 1
			add(pv)
			// A Job deleted at any moment (also before its first sync); its Pod may exit non-zero while terminating.
			dj := jobBase("none-att2-delete-any-phase-latefail")
			dj.MaxAttempts, dj.MaxFail = 2, 1
			dj.DeleteJob = true
			dj.PodActions = []string{"run", "succeed", "fail", "latefail"}
			add(dj)
			dj.Name, dj.Parallelism = "count2-att2-delete-any-phase", "count2"
			dj.PodActions = []string{"quick"}
			add(dj)
		}
		{
			// A task reaped for its pending timeout finishes on its own during graceful deletion and then goes away.
			lf := jobBase("none-att2-pendingtimeout-latefinish")
			lf.MaxAttempts, lf.MaxFail = 2, 1
			lf.PendingTimeoutJob = i64(30)
			lf.PodActions = []string{"run", "succeed", "fail", "sched", "latefinish"}
			add(lf)
		}
		if thorough {
			s := jobBase("count3-AllSuccessful-att2-delay0")
			s.Parallelism, s.Strategy, s.MaxAttempts, s.MaxFail = "count3", "AllSuccessful", 2, 2
			add(s)
			s = jobBase("count3-AnySuccessful-att2-delay0")
			s.Parallelism, s.Strategy, s.MaxAttempts, s.MaxFail = "count3", "AnySuccessful", 2, 3
			add(s)
		}
		return out
	})
}

func init() {
	// C09: crash/fault safety of task creation and recording.
	register("C09", func(thorough bool) []Scenario {
		var out []Scenario
		add := func(s JobScenario) { out = append(out, mk("job", "C09/"+s.Name, s)) }
		for _, shape := range []string{"none", "count2"} {
			for _, att := range []int64{1, 2} {
				s := jobBase(fmt.Sprintf("%s-att%d-crash1", shape, att))
				s.Parallelism, s.MaxAttempts, s.MaxFail = shape, att, int(att)
				if shape == "none" || att == 1 {
					s.PodActions = fullPod
				}
				s.Budget = mc.Budget{Crashes: 1}
				add(s)
				s.Name = fmt.Sprintf("%s-att%d-fault1", shape, att)
				s.Budget = mc.Budget{Faults: 1}
				add(s)
				if shape == "none" {
					s.Name = fmt.Sprintf("%s-att%d-fault1-crash1", shape, att)
					s.Budget = mc.Budget{Faults: 1, Crashes: 1}
					add(s)
				}
				if thorough {
					s.Name = fmt.Sprintf("%s-att%d-fault1-crash1-lag1", shape, att)
					s.Budget = mc.Budget{Faults: 1, Crashes: 1, Lag: 1}
					add(s)
					s.Name = fmt.Sprintf("%s-att%d-fault2", shape, att)
					s.Budget = mc.Budget{Faults: 2}
					add(s)
				}
			}
		}
		// A failed call followed by a retry that runs before the caches have caught up.
		fl := jobBase("none-att1-fault1-lag1")
		fl.PodActions = fullPod
		fl.Budget = mc.Budget{Faults: 1, Lag: 1}
		add(fl)
		// Lag after recovery.
		s := jobBase("none-att2-crash1-lag1")
		s.MaxAttempts, s.MaxFail = 2, 1
		s.Budget = mc.Budget{Crashes: 1, Lag: 1}
		add(s)
		// An earlier attempt whose Pod is gone, then a kill that deletes the live attempt: the earlier one stays listed.
		vk := jobBase("none-att2-vanish-kill")
		vk.MaxAttempts, vk.MaxFail, vk.MaxVanish = 2, 1, 1
		vk.PodActions = []string{"run", "fail", "vanish"}
		vk.Kill, vk.MaxKill = []string{"0"}, 1
		add(vk)
		// Restart with informers that list one after the other.
		for _, shape := range []string{"none", "count2"} {
			cs := jobBase(shape + "-att2-coldrestart")
			cs.Parallelism, cs.MaxAttempts, cs.MaxFail = shape, 2, 1
			cs.ColdStart = true
			cs.Budget = mc.Budget{Crashes: 1}
			add(cs)
		}
		// Foreign pods occupying the name of attempt 0.
		for _, kind := range []string{"noowner", "otherowner", "previous-incarnation", "not-controller"} {
			for _, shape := range []string{"none", "count2"} {
				s := jobBase(fmt.Sprintf("foreign-%s-%s", kind, shape))
				s.Parallelism, s.ForeignPod, s.MaxAttempts = shape, kind, 2
				s.PodActions = fullPod
				if thorough {
					s.Budget = mc.Budget{Lag: 1, Faults: 1}
				}
				add(s)
			}
		}
		// A task reaped for its pending timeout finishes on its own while it is being deleted, then goes away.
		lf := jobBase("none-att2-pendingtimeout-latefinish")
		lf.MaxAttempts, lf.MaxFail = 2, 1
		lf.PendingTimeoutJob = i64(30)
		lf.PodActions = []string{"run", "succeed", "fail", "sched", "latefinish"}
		add(lf)
		// Deletion and kill with crashes.
		s = jobBase("none-att1-delete-crash1")
		s.DeleteJob = true
		s.PodActions = fullPod
		s.Budget = mc.Budget{Crashes: 1}
		add(s)
		return out
	})

	// C10: final result is exactly what outcomes and strategy imply.
	register("C10", func(thorough bool) []Scenario {
		var out []Scenario
		add := func(s JobScenario) { out = append(out, mk("job", "C10/"+s.Name, s)) }
		for _, shape := range []string{"none", "count2", "count3"} {
			for _, strat := range []string{"AllSuccessful", "AnySuccessful"} {
				if shape == "none" && strat == "AnySuccessful" {
					continue
				}
				for _, att := range []int64{1, 2} {
					if shape == "count3" && (att == 2 && !thorough) {
						continue
					}
					s := jobBase(fmt.Sprintf("%s-%s-att%d", shape, strat, att))
					s.Parallelism, s.Strategy, s.MaxAttempts = shape, strat, att
					s.MaxFail = 4
					s.PodActions = []string{"quick", "vanish"}
					s.MaxVanish = 1
					if shape != "count3" && att == 1 {
						s.PodActions = []string{"run", "succeed", "fail", "oom", "vanish", "quick"}
					}
					if shape == "count3" && att == 2 {
						// the largest shape: outcomes only (every outcome history of 3 indexes x 3
						// attempts is also enumerated by the aggregation unit)
						s.PodActions, s.MaxVanish = []string{"quick"}, 0
					} else if thorough {
						s.Budget = mc.Budget{Lag: 1}
					}
					add(s)
				}
			}
		}
		// Pending timeout as an outcome.
		s := jobBase("none-att2-pendingtimeout")
		s.MaxAttempts, s.MaxFail = 2, 1
		s.PendingTimeoutJob = i64(30)
		s.PodActions = []string{"run", "succeed", "fail", "sched"}
		add(s)
		s = jobBase("none-att2-pendingtimeout-latefinish")
		s.MaxAttempts, s.MaxFail = 2, 1
		s.PendingTimeoutJob = i64(30)
		s.PodActions = []string{"run", "succeed", "fail", "sched", "latefinish"}
		add(s)
		s = jobBase("none-att1-pendingtimeout-latefinish")
		s.PendingTimeoutJob = i64(30)
		s.PodActions = []string{"run", "succeed", "fail", "sched", "latefinish"}
		add(s)
		s = jobBase("none-att1-kill-latefinish")
		s.PodActions = []string{"run", "succeed", "latefinish"}
		s.Kill, s.MaxKill = []string{"0"}, 1
		add(s)
		s = jobBase("count2-All-att1-pendingtimeout")
		s.Parallelism, s.Strategy, s.MaxAttempts, s.MaxFail = "count2", "AllSuccessful", 1, 1
		s.PendingTimeoutJob = i64(30)
		s.PodActions = []string{"run", "succeed", "sched"}
		add(s)
		// One task stuck terminating beyond the force-delete timeout while its sibling lives.
		for _, strat := range []string{"AnySuccessful", "AllSuccessful"} {
			fd := jobBase("count2-" + strat[:3] + "-att1-pending30-deadkubelet-force60")
			fd.Parallelism, fd.Strategy, fd.MaxAttempts, fd.MaxFail = "count2", strat, 1, 1
			fd.PendingTimeoutJob, fd.ForceDeleteCfg, fd.KubeletDead = i64(30), i64(60), true
			fd.PodActions = []string{"run", "succeed", "sched"} // "sched": bound to a node, so deletion waits for the (dead) kubelet
			fd.Horizon = 300
			if thorough {
				fd.Name = "count2-" + strat[:3] + "-att2-pending30-deadkubelet-force60"
				fd.MaxAttempts = 2
				fd.PodActions = []string{"run", "succeed", "sched"}
				fd.Horizon = 2000
			} else if strat == "AllSuccessful" {
				continue
			}
			add(fd)
		}
		if thorough {
			s = jobBase("count2-All-att2-pendingtimeout")
			s.Parallelism, s.Strategy, s.MaxAttempts, s.MaxFail = "count2", "AllSuccessful", 2, 1
			s.PendingTimeoutJob = i64(30)
			s.PodActions = []string{"quick", "sched"}
			add(s)
		}
		// One index in retry back-off when the other one succeeds; the back-off then elapses.
		bo := jobBase("count2-Any-att2-delay10")
		bo.Parallelism, bo.Strategy, bo.MaxAttempts, bo.RetryDelay, bo.MaxFail = "count2", "AnySuccessful", 2, 10, 1
		add(bo)
		// A helper container exits while the main container runs: the Pod is Running, the task is not over.
		sc := jobBase("none-att2-sidecar-exits-first")
		sc.MaxAttempts, sc.MaxFail, sc.MaxFlap = 2, 1, 1
		sc.PodActions = []string{"run", "succeed", "fail", "sidecar"}
		add(sc)
		s = jobBase("count2-Any-att1-kubeletlate")
		s.Parallelism, s.Strategy = "count2", "AnySuccessful"
		s.PodActions = []string{"run", "succeed", "fail"}
		add(s)
		return out
	})

	// C11: status only moves forward and is self-consistent.
	register("C11", func(thorough bool) []Scenario {
		var out []Scenario
		add := func(s JobScenario) { out = append(out, mk("job", "C11/"+s.Name, s)) }
		for _, shape := range []string{"none", "count2"} {
			s := jobBase(shape + "-att2-flap-vanish-kill-delete")
			s.Parallelism, s.MaxAttempts, s.MaxFail = shape, 2, 1
			s.PodActions = []string{"run", "succeed", "fail", "flap", "vanish"}
			s.MaxFlap, s.MaxVanish = 1, 1
			s.Kill, s.MaxKill = []string{"0"}, 1
			s.DeleteJob = shape == "none"
			if shape == "count2" {
				s.PodActions = []string{"run", "succeed", "fail", "flap"}
				s.MaxAttempts = 1
			}
			add(s)
			f := s
			f.Name = shape + "-att1-fault1"
			f.MaxAttempts = 1
			f.PodActions = []string{"run", "succeed", "fail", "flap"}
			f.DeleteJob = false
			f.Budget = mc.Budget{Faults: 1}
			add(f)
			if thorough {
				l := s
				l.Name += "-lag1"
				l.Budget = mc.Budget{Lag: 1}
				add(l)
			}
		}
		// A finished parallel Job whose deciding Pod disappears afterwards must stay finished.
		pv := jobBase("count2-Any-att2-vanish")
		pv.Parallelism, pv.Strategy, pv.MaxAttempts, pv.MaxFail = "count2", "AnySuccessful", 2, 1
		pv.PodActions, pv.MaxVanish = []string{"quick", "run", "vanish"}, 1
		add(pv)
		uf := jobBase("none-att1-status-flaps-after-finish")
		uf.PodActions = []string{"run", "succeed", "fail", "unfinish"}
		uf.MaxFlap = 1
		add(uf)
		lf := jobBase("none-att2-pendingtimeout-latefinish")
		lf.MaxAttempts, lf.MaxFail = 2, 1
		lf.PendingTimeoutJob = i64(30)
		lf.PodActions = []string{"run", "succeed", "fail", "sched", "latefinish"}
		add(lf)
		s := jobBase("none-notstarted-kill-delete")
		s.NotStarted = true
		s.Kill, s.MaxKill = []string{"0", "30"}, 1
		s.DeleteJob = true
		s.PodActions = fullPod
		add(s)
		return out
	})

	// C12: kill / pending-timeout / force-delete deadlines.
	register("C12", func(thorough bool) []Scenario {
		var out []Scenario
		add := func(s JobScenario) { out = append(out, mk("job", "C12/"+s.Name, s)) }
		// Kill at every phase, prompt kubelet.
		for _, shape := range []string{"none", "count2"} {
			s := jobBase(shape + "-kill-now-or-later")
			s.Parallelism, s.MaxAttempts, s.MaxFail = shape, 2, 1
			s.RetryDelay = 10
			s.PodActions = fullPod
			s.Kill, s.MaxKill = []string{"0", "30"}, 1
			s.Probes, s.MaxResync = true, 1
			if shape == "count2" {
				s.MaxAttempts, s.RetryDelay = 1, 0
				s.Probes, s.MaxResync = false, 0
			}
			add(s)
		}
		u := jobBase("none-att2-kill-then-unkill")
		u.MaxAttempts, u.MaxFail = 2, 1
		u.PodActions = fullPod
		u.Kill, u.MaxKill, u.Unkill = []string{"0", "30"}, 1, true
		u.Horizon = 1000 // the pending-timeout timer at +900 provides an instant after the kill time
		add(u)
		s := jobBase("none-notstarted-kill")
		s.NotStarted = true
		s.PodActions = fullPod
		s.Kill, s.MaxKill = []string{"0", "30"}, 1
		add(s)
		// Dead kubelet: force deletion after the timeout, or never when forbidden.
		for _, forbid := range []bool{false, true} {
			for _, fd := range []int64{0, 60} {
				s := jobBase(fmt.Sprintf("none-kill-deadkubelet-force%d-forbid%v", fd, forbid))
				s.PodActions = fullPod
				s.Kill, s.MaxKill = []string{"0"}, 1
				s.KubeletDead, s.ForceDeleteCfg, s.ForbidForce = true, i64(fd), forbid
				s.Horizon = 2000
				s.Probes, s.MaxResync = true, 1
				add(s)
			}
		}
		// Pending timeout: job value, config value, 0 disables.
		type pt struct{ job, cfg *int64 }
		for i, c := range []pt{{nil, i64(30)}, {i64(30), nil}, {i64(0), i64(30)}, {i64(20), i64(40)}, {nil, i64(0)}} {
			s := jobBase(fmt.Sprintf("none-pending-%d", i))
			s.MaxAttempts, s.MaxFail = 2, 1
			s.PendingTimeoutJob, s.PendingTimeoutCfg = c.job, c.cfg
			s.PodActions = []string{"run", "succeed", "fail", "sched"}
			s.Horizon = 1200
			s.Probes, s.MaxResync = true, 1
			add(s)
		}
		s = jobBase("count2-pending-30")
		s.Parallelism = "count2"
		s.PendingTimeoutJob = i64(30)
		s.PodActions = []string{"run", "succeed", "sched"}
		add(s)
		s = jobBase("none-pending-30-deadkubelet-force60")
		s.PendingTimeoutJob, s.ForceDeleteCfg, s.KubeletDead = i64(30), i64(60), true
		s.PodActions = []string{"run", "succeed", "sched"}
		add(s)
		s = jobBase("count2-att1-pending-30-deadkubelet-force60")
		s.Parallelism, s.MaxAttempts, s.MaxFail = "count2", 1, 1
		s.PendingTimeoutJob, s.ForceDeleteCfg, s.KubeletDead = i64(30), i64(60), true
		s.PodActions = []string{"run", "succeed", "sched"}
		s.Horizon = 300
		add(s)
		// Kill of a Job whose running Pod carries an OOM-killed (and restarted) container.
		ok := jobBase("none-kill-oomrestart")
		ok.PodActions, ok.MaxFlap = []string{"run", "succeed", "oomrestart"}, 1
		ok.Kill, ok.MaxKill = []string{"0", "30"}, 1
		add(ok)
		// Kill of a Job that is already "finished" by an admission error while tasks of other indexes live.
		fk := jobBase("foreign-noowner-count2-kill")
		fk.Parallelism, fk.ForeignPod, fk.MaxAttempts = "count2", "noowner", 2
		fk.PodActions = fullPod
		fk.Kill, fk.MaxKill = []string{"0", "30"}, 1
		add(fk)
		// ... and with the foreign pod on the name of the first retry: by then the tasks of both indexes are recorded.
		fk.Name, fk.ForeignRetry, fk.MaxFail = "foreign-noowner-retry1-count2-kill", 1, 1
		add(fk)
		if thorough {
			for _, shape := range []string{"none", "count2"} {
				s := jobBase(shape + "-kill-lag1-fault1")
				s.Parallelism = shape
				s.PodActions = fullPod
				s.Kill, s.MaxKill = []string{"0", "30"}, 1
				s.Budget = mc.Budget{Lag: 1, Faults: 1}
				add(s)
			}
		}
		return out
	})

	// C13: Job disappears only after its tasks; TTL never early.
	register("C13", func(thorough bool) []Scenario {
		var out []Scenario
		add := func(s JobScenario) { out = append(out, mk("job", "C13/"+s.Name, s)) }
		for _, shape := range []string{"none", "count2"} {
			s := jobBase(shape + "-delete-any-phase")
			s.Parallelism, s.MaxAttempts, s.MaxFail = shape, 2, 1
			s.PodActions = fullPod
			s.DeleteJob = true
			if shape == "count2" {
				s.MaxAttempts = 1
			}
			add(s)
			if thorough || shape == "none" {
				l := s
				l.Name += "-lag1"
				l.PodActions = []string{"quick", "run"}
				l.Budget = mc.Budget{Lag: 1}
				add(l)
			}
		}
		of := jobBase("none-other-finalizer-delete")
		of.OtherFinalizer, of.DeleteJob = true, true
		of.PodActions = fullPod
		add(of)
		s := jobBase("none-notstarted-delete")
		s.NotStarted, s.DeleteJob = true, true
		s.PodActions = fullPod
		add(s)
		s = jobBase("none-delete-deadkubelet")
		s.DeleteJob, s.KubeletDead = true, true
		s.PodActions = fullPod
		s.ForceDeleteCfg = i64(60)
		add(s)
		// TTL: job value, config value, zero.
		type ttl struct{ job, cfg *int64 }
		for i, c := range []ttl{{i64(60), nil}, {nil, i64(120)}, {i64(0), i64(120)}, {i64(60), i64(0)}} {
			s := jobBase(fmt.Sprintf("none-ttl-%d", i))
			s.TTLJob, s.TTLCfg = c.job, c.cfg
			s.MaxAttempts, s.MaxFail = 2, 2
			s.Horizon = 4000
			s.Probes, s.MaxResync = true, 1
			s.PodActions = fullPod
			add(s)
		}
		s = jobBase("count2-ttl-60-fault1")
		s.Parallelism, s.TTLJob, s.Horizon = "count2", i64(60), 4000
		s.Budget = mc.Budget{Faults: 1}
		add(s)
		return out
	})
}
