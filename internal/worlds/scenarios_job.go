package worlds

import (
	"fmt"

	"verif/internal/mc"
)

func jobBase(name string) JobScenario {
	return JobScenario{
		Name:        name,
		Parallelism: "none",
		MaxAttempts: 1,
		PodActions:  []string{"quick"},
		MaxFail:     1,
		Horizon:     600,
	}
}

var fullPod = []string{"run", "succeed", "fail"}

func init() {
	// C08: per index one live task, ordered bounded retries.
	register("C08", func(thorough bool) []Scenario {
		var out []Scenario
		add := func(s JobScenario) { out = append(out, mk("job", "C08/"+s.Name, s)) }
		for _, shape := range []string{"none", "count2", "keys2", "matrix2"} {
			for _, strat := range []string{"AllSuccessful", "AnySuccessful"} {
				if shape == "none" && strat == "AnySuccessful" {
					continue
				}
				for _, att := range []int64{1, 2, 3} {
					for _, delay := range []int64{0, 10} {
						if att == 1 && delay > 0 {
							continue
						}
						if att == 3 && !(thorough || shape == "none") {
							continue
						}
						s := jobBase(fmt.Sprintf("%s-%s-att%d-delay%d", shape, strat, att, delay))
						s.Parallelism, s.Strategy, s.MaxAttempts, s.RetryDelay = shape, strat, att, delay
						s.MaxFail = int(att) * 2
						if thorough {
							s.PodActions = append(append([]string{}, fullPod...), "vanish")
							s.MaxVanish = 1
							s.Budget = mc.Budget{Lag: 1}
							if shape == "none" {
								s.Budget.Lag = 2
							}
							add(s)
							continue
						}
						// Quick tier. Fresh caches: full kubelet alphabet where the space is small,
						// otherwise pods finish straight from pending ("quick").
						small := att == 1 || (shape == "none" && att == 2)
						if small {
							s.PodActions = append(append([]string{}, fullPod...), "vanish")
							s.MaxVanish = 1
						}
						if shape != "none" && shape != "count2" && att == 2 && delay > 0 {
							continue
						}
						add(s)
						// Lagging caches (one undelivered event), reduced kubelet alphabet.
						if (shape == "count2" && att <= 2 && delay == 0) || (shape == "none" && att <= 2) {
							l := s
							l.Name += "-lag1"
							l.PodActions = []string{"quick"}
							l.MaxVanish = 0
							l.MaxFail = int(att)
							l.Budget = mc.Budget{Lag: 1}
							add(l)
						}
					}
				}
			}
		}
		if thorough {
			s := jobBase("count3-AllSuccessful-att2-delay0")
			s.Parallelism, s.Strategy, s.MaxAttempts, s.MaxFail = "count3", "AllSuccessful", 2, 2
			add(s)
			s = jobBase("count3-AnySuccessful-att2-delay0")
			s.Parallelism, s.Strategy, s.MaxAttempts, s.MaxFail = "count3", "AnySuccessful", 2, 3
			add(s)
		}
		return out
	})
}
