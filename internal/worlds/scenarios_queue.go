package worlds

import (
	"verif/internal/mc"
)

func queueScenarios(prop string, thorough bool) []Scenario {
	var out []Scenario
	add := func(s QueueScenario) { out = append(out, mk("queue", prop+"/"+s.Name, s)) }
	lag := 0
	// Mixed policies on one JobConfig, maxConcurrency 1 and 2.
	for _, max := range []int64{1, 2} {
		s := QueueScenario{Name: "mix-max" + string(rune('0'+max)), MaxConcurrency: max,
			Creates: []string{"Forbid", "Enqueue", "Enqueue", "Allow"}, MaxCreates: 3, Horizon: 600,
			Budget: mc.Budget{Lag: lag}}
		if max == 2 {
			s.Creates = []string{"Forbid", "Enqueue", "Enqueue", "Enqueue"}
		}
		add(s)
		l := s
		l.Name += "-lag1"
		l.MaxCreates = 2
		if thorough {
			l.MaxCreates = 3
		}
		l.Budget = mc.Budget{Lag: 1}
		add(l)
	}
	// Enqueue only: FIFO with three Jobs and deletions.
	s := QueueScenario{Name: "enqueue3-delete", MaxConcurrency: 1, Creates: []string{"Enqueue", "Enqueue", "Enqueue"}, MaxCreates: 3, Delete: true, Horizon: 600}
	if !thorough {
		s.MaxCreates = 2
		s.Creates = []string{"Enqueue", "Enqueue"}
	}
	add(s)
	s = QueueScenario{Name: "enqueue3", MaxConcurrency: 1, Creates: []string{"Enqueue", "Enqueue", "Enqueue"}, MaxCreates: 3, Horizon: 600}
	add(s)
	// Forbid twice + faults on the start / reject writes.
	s = QueueScenario{Name: "forbid2-enqueue-fault1", MaxConcurrency: 1, Creates: []string{"Forbid", "Forbid", "Enqueue"}, MaxCreates: 2, Horizon: 600, Budget: mc.Budget{Faults: 1}}
	add(s)
	s = QueueScenario{Name: "enqueue2-crash1", MaxConcurrency: 1, Creates: []string{"Enqueue", "Enqueue"}, MaxCreates: 2, Horizon: 600, Budget: mc.Budget{Crashes: 1}}
	add(s)
	s = QueueScenario{Name: "enqueue2-max2-fault1-lag1", MaxConcurrency: 2, Creates: []string{"Enqueue", "Enqueue", "Enqueue"}, MaxCreates: 3, Horizon: 600, NoFinish: !thorough, Budget: mc.Budget{Faults: 1, Lag: 1}}
	add(s)
	// Preemption: a Job event delivered between the counter read and the compare-and-add.
	s = QueueScenario{Name: "enqueue3-max2-preempt1", MaxConcurrency: 2, Creates: []string{"Enqueue", "Enqueue", "Enqueue"}, MaxCreates: 3, Horizon: 600, Budget: mc.Budget{Lag: 1, Preempt: 1}}
	add(s)
	s = QueueScenario{Name: "enqueue3-max1-preempt1", MaxConcurrency: 1, Creates: []string{"Enqueue", "Enqueue", "Enqueue"}, MaxCreates: 3, Horizon: 600, Budget: mc.Budget{Lag: 1, Preempt: 1}}
	add(s)
	s = QueueScenario{Name: "forbid-allow-max1-preempt1", MaxConcurrency: 1, Creates: []string{"Forbid", "Allow", "Enqueue"}, MaxCreates: 3, Horizon: 600, Budget: mc.Budget{Lag: 1, Preempt: 1}}
	add(s)
	// Listener lag: the store hears about a finished Job later than the queue controller syncs;
	// the periodic resync is then the documented safety net ("delayed but not missed").
	s = QueueScenario{Name: "enqueue2-listenerlag-resync", MaxConcurrency: 1, Creates: []string{"Enqueue", "Enqueue"}, MaxCreates: 2, Horizon: 600, ListenerLag: true}
	add(s)
	s = QueueScenario{Name: "enqueue-allow-listenerlag-resync-max2", MaxConcurrency: 2, Creates: []string{"Enqueue", "Enqueue", "Allow"}, MaxCreates: 3, Horizon: 600, ListenerLag: true}
	add(s)
	// startAfter, owned and independent.
	s = QueueScenario{Name: "startafter-owned", MaxConcurrency: 1, Creates: []string{"Enqueue@5", "Enqueue", "Allow@90"}, MaxCreates: 3, Horizon: 600}
	add(s)
	s = QueueScenario{Name: "startafter-forbid-at-limit", MaxConcurrency: 1, Creates: []string{"Enqueue", "Forbid@5", "Forbid@90"}, MaxCreates: 3, Horizon: 600}
	add(s)
	s = QueueScenario{Name: "startafter-independent", MaxConcurrency: 1, Creates: []string{"Ind", "Ind@5", "Ind@90", "Ind@0"}, MaxCreates: 2, Horizon: 600}
	if thorough {
		s.MaxCreates = 3
	}
	add(s)
	s = QueueScenario{Name: "startafter-mixed-lag1", MaxConcurrency: 1, Creates: []string{"Ind@5", "Enqueue@5", "Forbid@5"}, MaxCreates: 2, Horizon: 600, Budget: mc.Budget{Lag: 1}}
	if thorough {
		s.MaxCreates = 3
	}
	add(s)
	// Jobs that exist before the controller starts (recovery of the store, restart).
	s = QueueScenario{Name: "preexisting-restart", MaxConcurrency: 1, Preexisting: []string{"Enqueue", "Enqueue"}, Creates: []string{"Forbid"}, MaxCreates: 3, Horizon: 600, Budget: mc.Budget{Crashes: 1}}
	add(s)
	s = QueueScenario{Name: "enqueue2-delete-tombstones", MaxConcurrency: 1, Creates: []string{"Enqueue", "Enqueue"}, MaxCreates: 2, Delete: true, Horizon: 600, Tombstones: true}
	add(s)
	// Restart while a started Job is being deleted (held by its finalizer): it still occupies its slot.
	s = QueueScenario{Name: "enqueue2-delete-crash1", MaxConcurrency: 1, Creates: []string{"Enqueue", "Enqueue"}, MaxCreates: 2, Delete: true, Horizon: 600, Budget: mc.Budget{Crashes: 1}}
	add(s)
	// Restart with informers that list one after the other: Job notifications handled while the
	// JobConfig cache is still empty (and the other way round), store recovered afterwards.
	s = QueueScenario{Name: "enqueue2-coldrestart", MaxConcurrency: 1, Creates: []string{"Enqueue", "Enqueue"}, MaxCreates: 2, Horizon: 600, ColdStart: true, Budget: mc.Budget{Crashes: 1}}
	add(s)
	s = QueueScenario{Name: "forbid-enqueue-coldrestart", MaxConcurrency: 1, Creates: []string{"Enqueue", "Forbid"}, MaxCreates: 2, Horizon: 600, ColdStart: true, Budget: mc.Budget{Crashes: 1}}
	add(s)
	if thorough {
		s = QueueScenario{Name: "mix4-max2-lag1", MaxConcurrency: 2, Creates: []string{"Forbid", "Enqueue", "Enqueue", "Allow"}, MaxCreates: 4, Horizon: 600, Budget: mc.Budget{Lag: 1}}
		add(s)
		s = QueueScenario{Name: "enqueue3-fault2", MaxConcurrency: 1, Creates: []string{"Enqueue", "Enqueue", "Enqueue"}, MaxCreates: 3, Horizon: 600, Budget: mc.Budget{Faults: 2}}
		add(s)
		s = QueueScenario{Name: "enqueue3-lag2", MaxConcurrency: 1, Creates: []string{"Enqueue", "Enqueue", "Enqueue"}, MaxCreates: 3, Horizon: 600, Budget: mc.Budget{Lag: 2}}
		add(s)
	}
	return out
}

func init() {
	for _, p := range []string{"C05", "C06", "C07"} {
		p := p
		register(p, func(thorough bool) []Scenario { return queueScenarios(p, thorough) })
	}
}
