// Package worlds contains the closed systems explored by the model checker.
package worlds

import (
	"encoding/json"
	"fmt"
	"sort"
	"strconv"
	"strings"
	"time"

	corev1 "k8s.io/api/core/v1"
	metav1 "k8s.io/apimachinery/pkg/apis/meta/v1"
	"k8s.io/apimachinery/pkg/runtime"
	"k8s.io/client-go/tools/record"
	"k8s.io/utils/pointer"

	configv1alpha1 "github.com/furiko-io/furiko/apis/config/v1alpha1"
	execution "github.com/furiko-io/furiko/apis/execution/v1alpha1"
	"github.com/furiko-io/furiko/pkg/execution/controllers/jobcontroller"
	"github.com/furiko-io/furiko/pkg/execution/taskexecutor/podtaskexecutor"
	jobutil "github.com/furiko-io/furiko/pkg/execution/util/job"
	"github.com/furiko-io/furiko/pkg/execution/util/parallel"
	"github.com/furiko-io/furiko/pkg/runtime/reconciler"

	"verif/internal/mc"
	"verif/internal/sim"
)

// JobScenario parameterises the job-controller world (C08-C13, C20).
type JobScenario struct {
	Name        string `json:"name"`
	Parallelism string `json:"parallelism"` // none | count2 | count3 | keys2 | matrix2
	Strategy    string `json:"strategy"`    // "" | AllSuccessful | AnySuccessful
	MaxAttempts int64  `json:"maxAttempts"`
	RetryDelay  int64  `json:"retryDelay"`

	PendingTimeoutJob *int64 `json:"pendingTimeoutJob,omitempty"`
	PendingTimeoutCfg *int64 `json:"pendingTimeoutCfg,omitempty"`
	ForceDeleteCfg    *int64 `json:"forceDeleteCfg,omitempty"`
	ForbidForce       bool   `json:"forbidForce,omitempty"`
	TTLJob            *int64 `json:"ttlJob,omitempty"`
	TTLCfg            *int64 `json:"ttlCfg,omitempty"`

	// Kubelet behaviour.
	PodActions  []string `json:"podActions"` // subset of run, succeed, fail, oom, vanish, flap, quick (succeed/fail straight from pending)
	MaxFail     int      `json:"maxFail"`    // budget of fail/oom actions
	MaxVanish   int      `json:"maxVanish"`
	MaxFlap     int      `json:"maxFlap"`
	KubeletDead bool     `json:"kubeletDead,omitempty"` // never terminates deleting pods

	// User behaviour.
	Kill       []string `json:"kill,omitempty"` // menu of kill offsets in seconds relative to now: "0", "30"
	MaxKill    int      `json:"maxKill,omitempty"`
	DeleteJob  bool     `json:"deleteJob,omitempty"`
	ForeignPod string   `json:"foreignPod,omitempty"` // "" | noowner | otherowner : occupies attempt ForeignRetry of index 0
	// ForeignRetry: which attempt's name the foreign pod occupies (0: the first task, 1: the first retry).
	ForeignRetry int  `json:"foreignRetry,omitempty"`
	NotStarted   bool `json:"notStarted,omitempty"` // job is created but never started by the harness; action u:start available
	SecondJob    bool `json:"secondJob,omitempty"`
	MaxResync    int  `json:"maxResync,omitempty"` // budget of spurious re-syncs (informer resync) of the Job key
	Unkill       bool `json:"unkill,omitempty"`    // the user may try to remove the kill timestamp again
	Probes       bool `json:"probes,omitempty"`    // also stop the clock one second before every deadline

	Budget mc.Budget `json:"budget"`
	// OtherFinalizer: the Job is submitted with somebody else's finalizer in its metadata; once the Job is
	// being deleted that owner releases it at some point (u:release).
	OtherFinalizer bool `json:"otherFinalizer,omitempty"`
	// ColdStart: after a restart the Job and Pod informers list one after the other (DESIGN.md 10.9).
	ColdStart bool `json:"coldStart,omitempty"`
	Horizon   int  `json:"horizon,omitempty"` // seconds of simulated time explored (0 = unbounded)
	// KnownOff removes an environment feature from the alphabet (known-finding split runs).
	NoStalePods bool `json:"noStalePods,omitempty"`
}

type jobWorld struct {
	*mc.Base
	scn JobScenario

	jobKeys []string
	// monitor memory (part of the state key)
	mem jobMem
	// derived per build
	jobCtx *jobcontroller.Context
}

type jobMem struct {
	Created         map[string]int    `json:"created"`      // job/hash -> pods ever created
	CreatedName     map[string]bool   `json:"createdName"`  // pod names ever created
	Succeeded       map[string]bool   `json:"succeeded"`    // job/hash -> truly succeeded
	RecordedSucc    map[string]bool   `json:"recordedSucc"` // job/hash -> the controller itself once recorded a succeeded task for this index
	Maybe           map[string]bool   `json:"maybe"`        // job/hash -> a pod succeeded but disappeared before the success was recorded: the controller may or may not have seen it
	LastEnd         map[string]int64  `json:"lastEnd"`      // job/hash -> sim seconds when last attempt ended (finished or removed)
	Ended           map[string]string `json:"ended"`        // pod name -> how it ended: succeeded|failed|removed
	EditedFin       map[string]bool   `json:"editedFin"`    // job -> user edited/deleted after finish
	KillsUsed       int               `json:"kills"`
	FailsUsed       int               `json:"fails"`
	VanishUsed      int               `json:"vanish"`
	FlapUsed        int               `json:"flap"`
	ResyncUsed      int               `json:"resync"`
	KillPassed      map[string]bool   `json:"killPassed"` // jobs whose kill timestamp has passed at some point
	UnkillUsed      int               `json:"unkill"`
	Regressed       bool              `json:"regressed"` // a terminal pod status was reported as non-terminal again
	Deleted         map[string]bool   `json:"deleted"`
	CreateAfterKill bool              `json:"-"`
}

func (m jobMem) clone() jobMem {
	c := m
	c.Created = map[string]int{}
	for k, v := range m.Created {
		c.Created[k] = v
	}
	c.CreatedName = map[string]bool{}
	for k, v := range m.CreatedName {
		c.CreatedName[k] = v
	}
	c.Succeeded = map[string]bool{}
	for k, v := range m.Succeeded {
		c.Succeeded[k] = v
	}
	c.Maybe = map[string]bool{}
	for k, v := range m.Maybe {
		c.Maybe[k] = v
	}
	c.RecordedSucc = map[string]bool{}
	for k, v := range m.RecordedSucc {
		c.RecordedSucc[k] = v
	}
	c.LastEnd = map[string]int64{}
	for k, v := range m.LastEnd {
		c.LastEnd[k] = v
	}
	c.Ended = map[string]string{}
	for k, v := range m.Ended {
		c.Ended[k] = v
	}
	c.EditedFin = map[string]bool{}
	for k, v := range m.EditedFin {
		c.EditedFin[k] = v
	}
	c.Deleted = map[string]bool{}
	for k, v := range m.Deleted {
		c.Deleted[k] = v
	}
	c.KillPassed = map[string]bool{}
	for k, v := range m.KillPassed {
		c.KillPassed[k] = v
	}
	return c
}

func i64(v int64) *int64 { return pointer.Int64(v) }

// NewJobWorld builds the factory of a job-controller world.
func NewJobWorld(scn JobScenario) mc.Factory {
	return func() mc.World {
		return newJobWorld(scn)
	}
}

func (s JobScenario) jobExecutionConfig() *configv1alpha1.JobExecutionConfig {
	cfg := &configv1alpha1.JobExecutionConfig{
		DefaultTTLSecondsAfterFinished: i64(3600),
		DefaultPendingTimeoutSeconds:   i64(900),
		ForceDeleteTaskTimeoutSeconds:  i64(900),
	}
	if s.PendingTimeoutCfg != nil {
		cfg.DefaultPendingTimeoutSeconds = s.PendingTimeoutCfg
	}
	if s.ForceDeleteCfg != nil {
		cfg.ForceDeleteTaskTimeoutSeconds = s.ForceDeleteCfg
	}
	if s.TTLCfg != nil {
		cfg.DefaultTTLSecondsAfterFinished = s.TTLCfg
	}
	return cfg
}

func (s JobScenario) parallelism() *execution.ParallelismSpec {
	var p *execution.ParallelismSpec
	switch s.Parallelism {
	case "", "none":
		return nil
	case "count2":
		p = &execution.ParallelismSpec{WithCount: i64(2)}
	case "count3":
		p = &execution.ParallelismSpec{WithCount: i64(3)}
	case "keys2":
		p = &execution.ParallelismSpec{WithKeys: []string{"a", "b"}}
	case "matrix2":
		p = &execution.ParallelismSpec{WithMatrix: map[string][]string{"x": {"1", "2"}}}
	default:
		panic("unknown parallelism " + s.Parallelism)
	}
	p.CompletionStrategy = execution.ParallelCompletionStrategy(s.Strategy)
	return p
}

func (s JobScenario) newJob(name string) *execution.Job {
	tmpl := &execution.JobTemplate{
		TaskTemplate: execution.TaskTemplate{
			Pod: &execution.PodTemplateSpec{
				Spec: corev1.PodSpec{
					Containers: []corev1.Container{{Name: "c", Image: "busybox", Args: []string{"echo", "${task.index_num}"}}},
				},
			},
		},
		Parallelism:               s.parallelism(),
		TaskPendingTimeoutSeconds: s.PendingTimeoutJob,
		ForbidTaskForceDeletion:   s.ForbidForce,
	}
	if s.MaxAttempts > 0 {
		tmpl.MaxAttempts = i64(s.MaxAttempts)
	}
	if s.RetryDelay > 0 {
		tmpl.RetryDelaySeconds = i64(s.RetryDelay)
	}
	rj := &execution.Job{
		TypeMeta:   metav1.TypeMeta{APIVersion: "execution.furiko.io/v1alpha1", Kind: "Job"},
		ObjectMeta: metav1.ObjectMeta{Namespace: "default", Name: name},
		Spec: execution.JobSpec{
			Template:                tmpl,
			TTLSecondsAfterFinished: s.TTLJob,
		},
	}
	if s.OtherFinalizer {
		rj.Finalizers = []string{otherFinalizer}
	}
	return rj
}

const otherFinalizer = "example.com/held-by-someone-else"

func hasOtherFinalizer(rj *execution.Job) bool {
	for _, f := range rj.Finalizers {
		if f == otherFinalizer {
			return true
		}
	}
	return false
}

func newJobWorld(scn JobScenario) *jobWorld {
	cfgs := map[configv1alpha1.ConfigName]runtime.Object{
		configv1alpha1.JobExecutionConfigName: scn.jobExecutionConfig(),
	}
	w := &jobWorld{scn: scn}
	w.mem = jobMem{Created: map[string]int{}, CreatedName: map[string]bool{}, Succeeded: map[string]bool{}, Maybe: map[string]bool{}, RecordedSucc: map[string]bool{},
		LastEnd: map[string]int64{}, Ended: map[string]string{}, EditedFin: map[string]bool{}, Deleted: map[string]bool{}, KillPassed: map[string]bool{}}
	b := mc.NewBase(cfgs, true)
	w.Base = b
	b.Budget = scn.Budget
	if scn.ColdStart {
		b.ColdStart, b.ColdResources, b.ResyncMode = true, []string{sim.Jobs, sim.Pods}, true
	}
	b.Horizon = time.Duration(scn.Horizon) * time.Second
	if scn.ForeignPod != "" {
		b.StaticFeatures = append(b.StaticFeatures, "foreign-pod")
	}
	b.API.OnWrite = w.onWrite

	// Initial objects: the Job(s), created through real admission, then started.
	names := []string{"j1"}
	if scn.SecondJob {
		names = append(names, "j2")
	}
	for _, n := range names {
		if _, err := b.API.Create("env", sim.Jobs, scn.newJob(n)); err != nil {
			panic(fmt.Sprintf("initial job rejected by admission: %v", err))
		}
		w.jobKeys = append(w.jobKeys, "default/"+n)
	}
	if scn.ForeignPod != "" {
		w.plantForeignPod()
	}
	if !scn.NotStarted {
		for _, k := range w.jobKeys {
			w.startJob(k)
		}
	}

	b.Build = w.build
	b.EnvEnabled = w.envEnabled
	b.EnvApply = w.envApply
	b.Deadlines = w.deadlines
	b.ExtraKey = func() interface{} { return w.mem }
	b.CheckState = w.checkState
	b.OutcomeFn = w.outcome
	b.Snap.CanSnapshot = true
	b.Snap.SnapExtra = func() interface{} { return w.mem.clone() }
	b.Snap.RestoreExtra = func(x interface{}) { w.mem = x.(jobMem).clone() }
	b.Start()
	return w
}

func (w *jobWorld) build(b *mc.Base) {
	ctx := jobcontroller.NewContextWithRecorder(b.Ctx, &record.FakeRecorder{})
	q := b.AddQueue("job", nil)
	ctx.VerifSetQueue(q)
	jobcontroller.NewInformerWorker(ctx)
	recon := jobcontroller.NewReconciler(ctx, &configv1alpha1.Concurrency{Workers: 1})
	b.SetWorker("job", reconciler.NewController(recon, q))
	w.jobCtx = ctx
}

func (w *jobWorld) startJob(key string) {
	w.API.EnvMutate(sim.Jobs, key, func(o runtime.Object) {
		now := metav1.NewTime(w.Now())
		o.(*execution.Job).Status.StartTime = &now
	})
}

func (w *jobWorld) plantForeignPod() {
	rj := w.API.Job("default/j1")
	idx := parallel.GenerateIndexes(rj.Spec.Template.Parallelism)[0]
	hash, _ := parallel.HashIndex(idx)
	name := fmt.Sprintf("%s-%s-%d", rj.Name, hash, w.scn.ForeignRetry)
	pod := &corev1.Pod{
		ObjectMeta: metav1.ObjectMeta{Namespace: "default", Name: name, Labels: map[string]string{"foreign": "true"}},
		Spec:       corev1.PodSpec{Containers: []corev1.Container{{Name: "x", Image: "other"}}},
	}
	t := true
	switch w.scn.ForeignPod {
	case "otherowner":
		pod.OwnerReferences = []metav1.OwnerReference{{APIVersion: "execution.furiko.io/v1alpha1", Kind: "Job", Name: "other", UID: "uid-other", Controller: &t}}
	case "previous-incarnation":
		// A Pod left behind by a deleted Job of the same name (same name, other UID).
		pod.OwnerReferences = []metav1.OwnerReference{{APIVersion: "execution.furiko.io/v1alpha1", Kind: "Job", Name: rj.Name, UID: "uid-of-the-deleted-job", Controller: &t}}
		pod.Status.Phase = corev1.PodSucceeded
	case "not-controller":
		f := false
		pod.OwnerReferences = []metav1.OwnerReference{{APIVersion: "execution.furiko.io/v1alpha1", Kind: "Job", Name: rj.Name, UID: rj.UID, Controller: &f}}
	}
	if _, err := w.API.Create("seed", sim.Pods, pod); err != nil {
		panic(err)
	}
}

// ---- helpers on pods ----

func podJobUID(p *corev1.Pod) string { return p.Labels[podtaskexecutor.LabelKeyJobUID] }
func podHash(p *corev1.Pod) string   { return p.Labels[podtaskexecutor.LabelKeyTaskParallelIndexHash] }
func podRetry(p *corev1.Pod) int {
	n, _ := strconv.Atoi(p.Labels[podtaskexecutor.LabelKeyTaskRetryIndex])
	return n
}
func podFinished(p *corev1.Pod) bool {
	return p.Status.Phase == corev1.PodSucceeded || p.Status.Phase == corev1.PodFailed
}
func podRan(p *corev1.Pod) bool {
	t := podtaskexecutor.GetContainerStartTime(p)
	return !t.IsZero()
}
func controlledBy(p *corev1.Pod, rj *execution.Job) bool {
	ref := metav1.GetControllerOf(p)
	return ref != nil && ref.UID == rj.UID && ref.Kind == execution.KindJob
}

func (w *jobWorld) pods() []*corev1.Pod {
	var out []*corev1.Pod
	for _, o := range w.API.List(sim.Pods) {
		out = append(out, o.(*corev1.Pod))
	}
	return out
}

func (w *jobWorld) podsOf(rj *execution.Job) []*corev1.Pod {
	var out []*corev1.Pod
	for _, p := range w.pods() {
		if controlledBy(p, rj) {
			out = append(out, p)
		}
	}
	return out
}

func (w *jobWorld) cachedJob(key string) *execution.Job {
	o, ok, _ := w.Ctx.Set.Jobs.GetIndexer().GetByKey(key)
	if !ok {
		return nil
	}
	return o.(*execution.Job)
}

func (w *jobWorld) cachedPod(key string) *corev1.Pod {
	o, ok, _ := w.Ctx.Set.Pods.GetIndexer().GetByKey(key)
	if !ok {
		return nil
	}
	return o.(*corev1.Pod)
}

func has(list []string, s string) bool {
	for _, x := range list {
		if x == s {
			return true
		}
	}
	return false
}

// ---- environment ----

func (w *jobWorld) envEnabled() []string {
	var out []string
	s := w.scn
	for _, p := range w.pods() {
		if p.Labels["foreign"] == "true" {
			continue
		}
		name := p.Name
		deleting := p.DeletionTimestamp != nil
		switch {
		case podFinished(p):
			// A terminal status that is (wrongly) reported as non-terminal again: the controller
			// must keep the timestamps it recorded (job.GetTaskRef retains them on purpose).
			if has(s.PodActions, "unfinish") && w.mem.FlapUsed < s.MaxFlap && !deleting {
				out = append(out, "k:unfinish:"+name)
			}
		case !podRan(p):
			if !deleting {
				if has(s.PodActions, "run") {
					out = append(out, "k:run:"+name)
				}
				if has(s.PodActions, "sched") && p.Spec.NodeName == "" {
					out = append(out, "k:sched:"+name)
				}
				if has(s.PodActions, "quick") {
					out = append(out, "k:succeed:"+name)
					if w.mem.FailsUsed < s.MaxFail {
						out = append(out, "k:fail:"+name)
					}
				}
			}
		default: // running
			if !deleting {
				if has(s.PodActions, "succeed") {
					out = append(out, "k:succeed:"+name)
				}
				if w.mem.FailsUsed < s.MaxFail {
					if has(s.PodActions, "fail") {
						out = append(out, "k:fail:"+name)
					}
					if has(s.PodActions, "oom") {
						out = append(out, "k:oom:"+name)
					}
				}
				if has(s.PodActions, "flap") && w.mem.FlapUsed < s.MaxFlap && len(p.Status.ContainerStatuses) > 0 {
					out = append(out, "k:flap:"+name)
				}
				if has(s.PodActions, "oomrestart") && w.mem.FlapUsed < s.MaxFlap && len(p.Status.ContainerStatuses) == 1 && p.Status.ContainerStatuses[0].LastTerminationState.Terminated == nil {
					out = append(out, "k:oomrestart:"+name)
				}
				if has(s.PodActions, "sidecar") && w.mem.FlapUsed < s.MaxFlap && len(p.Status.ContainerStatuses) == 1 {
					out = append(out, "k:sidecar:"+name)
				}
			}
		}
		if deleting && !s.KubeletDead {
			out = append(out, "k:term:"+name)
			// During graceful deletion the container may still run to completion.
			if has(s.PodActions, "latefinish") && !podFinished(p) && p.Spec.NodeName != "" {
				out = append(out, "k:succeed:"+name)
			}
			// ... or exit non-zero when told to terminate.
			if has(s.PodActions, "latefail") && !podFinished(p) && p.Spec.NodeName != "" && w.mem.FailsUsed < s.MaxFail {
				out = append(out, "k:fail:"+name)
			}
		}
		if !deleting && has(s.PodActions, "vanish") && w.mem.VanishUsed < s.MaxVanish {
			out = append(out, "k:vanish:"+name)
		}
	}
	for _, jk := range w.jobKeys {
		rj := w.API.Job(jk)
		if rj == nil {
			continue
		}
		short := rj.Name
		if s.NotStarted && rj.Status.StartTime.IsZero() && rj.DeletionTimestamp == nil {
			out = append(out, "u:start:"+short)
		}
		if w.mem.KillsUsed < s.MaxKill && rj.Spec.KillTimestamp == nil && rj.DeletionTimestamp == nil {
			for _, off := range s.Kill {
				out = append(out, "u:kill:"+short+":"+off)
			}
		}
		// (not at the exact instant of the kill time: with whole-second clocks that boundary is a model artefact)
		if s.Unkill && w.mem.UnkillUsed < 1 && rj.Spec.KillTimestamp != nil && rj.DeletionTimestamp == nil && !rj.Spec.KillTimestamp.Time.Equal(w.Now()) {
			out = append(out, "u:unkill:"+short)
		}
		if s.DeleteJob && rj.DeletionTimestamp == nil && !w.mem.Deleted[jk] {
			out = append(out, "u:delete:"+short)
		}
		if w.mem.ResyncUsed < s.MaxResync && w.SystemQuiescent() {
			out = append(out, "u:resync:"+short)
		}
		if rj.DeletionTimestamp != nil && hasOtherFinalizer(rj) {
			out = append(out, "u:release:"+short)
		}
	}
	return out
}

func (w *jobWorld) envApply(action string) {
	parts := strings.Split(action, ":")
	now := metav1.NewTime(w.Now())
	switch parts[0] + ":" + parts[1] {
	case "k:sched":
		w.API.EnvMutate(sim.Pods, "default/"+parts[2], func(o runtime.Object) {
			p := o.(*corev1.Pod)
			p.Spec.NodeName = "node1"
			p.Status.Phase = corev1.PodPending
			p.Status.Conditions = []corev1.PodCondition{{Type: corev1.PodScheduled, Status: corev1.ConditionTrue}}
		})
	case "k:run":
		w.API.EnvMutate(sim.Pods, "default/"+parts[2], func(o runtime.Object) {
			p := o.(*corev1.Pod)
			p.Spec.NodeName = "node1"
			p.Status.Phase = corev1.PodRunning
			p.Status.StartTime = &now
			p.Status.Conditions = []corev1.PodCondition{{Type: corev1.PodScheduled, Status: corev1.ConditionTrue}}
			p.Status.ContainerStatuses = []corev1.ContainerStatus{{Name: "c", State: corev1.ContainerState{Running: &corev1.ContainerStateRunning{StartedAt: now}}}}
		})
	case "k:succeed", "k:fail", "k:oom":
		key := "default/" + parts[2]
		p := w.API.Pod(key)
		w.API.EnvMutate(sim.Pods, key, func(o runtime.Object) {
			p := o.(*corev1.Pod)
			started := now
			if t := podtaskexecutor.GetContainerStartTime(p); !t.IsZero() {
				started = t
			}
			p.Spec.NodeName = "node1"
			if p.Status.StartTime == nil {
				p.Status.StartTime = &now
			}
			term := &corev1.ContainerStateTerminated{StartedAt: started, FinishedAt: now}
			switch parts[1] {
			case "succeed":
				p.Status.Phase = corev1.PodSucceeded
				term.Reason = "Completed"
			case "fail":
				p.Status.Phase = corev1.PodFailed
				term.ExitCode = 1
				term.Reason = "Error"
			case "oom":
				p.Status.Phase = corev1.PodFailed
				term.ExitCode = 137
				term.Reason = "OOMKilled"
			}
			p.Status.ContainerStatuses = []corev1.ContainerStatus{{Name: "c", State: corev1.ContainerState{Terminated: term}}}
		})
		id := podJobUID(p) + "/" + podHash(p)
		if parts[1] == "succeed" {
			w.mem.Succeeded[id] = true
			w.mem.Ended[p.Name] = "succeeded"
		} else {
			w.mem.FailsUsed++
			w.mem.Ended[p.Name] = "failed"
		}
		w.mem.LastEnd[id] = int64(w.Offset())
	case "k:unfinish":
		w.mem.FlapUsed++
		w.mem.Regressed = true
		w.API.EnvMutate(sim.Pods, "default/"+parts[2], func(o runtime.Object) {
			p := o.(*corev1.Pod)
			p.Status.Phase = corev1.PodPending
			p.Status.ContainerStatuses = []corev1.ContainerStatus{{Name: "c", State: corev1.ContainerState{Waiting: &corev1.ContainerStateWaiting{Reason: "ContainerCreating"}}}}
		})
	case "k:oomrestart":
		// The container was OOM-killed once and restarted by the kubelet (restartPolicy OnFailure): the Pod is Running.
		w.mem.FlapUsed++
		w.API.EnvMutate(sim.Pods, "default/"+parts[2], func(o runtime.Object) {
			p := o.(*corev1.Pod)
			now := metav1.NewTime(w.Now())
			cs := &p.Status.ContainerStatuses[0]
			cs.LastTerminationState = corev1.ContainerState{Terminated: &corev1.ContainerStateTerminated{ExitCode: 137, Reason: "OOMKilled", StartedAt: now, FinishedAt: now}}
			cs.RestartCount = 1
		})
	case "k:sidecar":
		// A helper container of the Pod has exited while the main one is still running: the Pod stays Running.
		w.mem.FlapUsed++
		w.API.EnvMutate(sim.Pods, "default/"+parts[2], func(o runtime.Object) {
			p := o.(*corev1.Pod)
			now := metav1.NewTime(w.Now())
			p.Status.ContainerStatuses = append(p.Status.ContainerStatuses, corev1.ContainerStatus{Name: "helper",
				State: corev1.ContainerState{Terminated: &corev1.ContainerStateTerminated{ExitCode: 0, Reason: "Completed", StartedAt: now, FinishedAt: now}}})
		})
	case "k:flap":
		w.mem.FlapUsed++
		w.API.EnvMutate(sim.Pods, "default/"+parts[2], func(o runtime.Object) {
			p := o.(*corev1.Pod)
			p.Status.ContainerStatuses = nil
		})
	case "k:term", "k:vanish":
		key := "default/" + parts[2]
		p := w.API.Pod(key)
		if parts[1] == "vanish" {
			w.mem.VanishUsed++
		}
		w.API.EnvRemove(sim.Pods, key)
		w.noteRemoved(p)
		// A pod that succeeded but disappears before its success was recorded in the Job status may or
		// may not have been seen by a sync (it can sit in the cache, or be in flight on the watch stream,
		// without a sync happening in between): both readings are legitimate for every observer, so the
		// outcome of that attempt is ambiguous (neither "succeeded" nor "lost" may be asserted).
		if p != nil && w.mem.Ended[p.Name] == "succeeded" {
			recorded := false
			if rj := w.jobByUID(podJobUID(p)); rj != nil {
				for _, t := range rj.Status.Tasks {
					if t.Name == p.Name && t.Status.Result == execution.TaskSucceeded {
						recorded = true
					}
				}
			}
			if !recorded {
				w.mem.Ended[p.Name] = "maybe-succeeded"
				delete(w.mem.Succeeded, podJobUID(p)+"/"+podHash(p))
				w.mem.Maybe[podJobUID(p)+"/"+podHash(p)] = true
			}
		}
	case "u:resync":
		w.mem.ResyncUsed++
		w.Queues["job"].Add("default/" + parts[2])
	case "u:start":
		w.startJob("default/" + parts[2])
	case "u:kill":
		w.mem.KillsUsed++
		off, _ := strconv.Atoi(parts[3])
		ts := metav1.NewTime(w.Now().Add(time.Duration(off) * time.Second))
		rj := w.API.Job("default/" + parts[2]).DeepCopy()
		rj.Spec.KillTimestamp = &ts
		rj.ResourceVersion = ""
		if _, err := w.API.Update("env", sim.Jobs, "", rj); err != nil {
			panic(fmt.Sprintf("user kill rejected: %v", err))
		}
	case "u:unkill":
		// The user tries to take the kill request back (through real admission; refused once it has passed).
		w.mem.UnkillUsed++
		rj := w.API.Job("default/" + parts[2]).DeepCopy()
		rj.Spec.KillTimestamp = nil
		rj.ResourceVersion = ""
		_, _ = w.API.Update("env", sim.Jobs, "", rj)
	case "u:release":
		// The owner of the other finalizer lets go.
		rj := w.API.Job("default/" + parts[2]).DeepCopy()
		var keep []string
		for _, f := range rj.Finalizers {
			if f != otherFinalizer {
				keep = append(keep, f)
			}
		}
		rj.Finalizers = keep
		rj.ResourceVersion = ""
		if _, err := w.API.Update("env", sim.Jobs, "", rj); err != nil {
			panic(fmt.Sprintf("finalizer release rejected: %v", err))
		}
	case "u:delete":
		w.mem.Deleted["default/"+parts[2]] = true
		if err := w.API.Delete("env", sim.Jobs, "default/"+parts[2], -1); err != nil {
			panic(err)
		}
	default:
		panic("unknown env action " + action)
	}
}

func (w *jobWorld) noteRemoved(p *corev1.Pod) {
	if p == nil || p.Labels["foreign"] == "true" {
		return
	}
	id := podJobUID(p) + "/" + podHash(p)
	if _, ok := w.mem.Ended[p.Name]; !ok {
		w.mem.Ended[p.Name] = "removed"
		w.mem.LastEnd[id] = int64(w.Offset())
	}
}

// Reference computations of the effective settings (independent of the code under test).
func refTTL(rj *execution.Job, cfg *configv1alpha1.JobExecutionConfig) time.Duration {
	if v := rj.Spec.TTLSecondsAfterFinished; v != nil {
		return time.Duration(*v) * time.Second
	}
	if v := cfg.DefaultTTLSecondsAfterFinished; v != nil {
		return time.Duration(*v) * time.Second
	}
	return 0
}

func refPendingTimeout(rj *execution.Job, cfg *configv1alpha1.JobExecutionConfig) time.Duration {
	if v := rj.Spec.Template.TaskPendingTimeoutSeconds; v != nil && *v >= 0 {
		return time.Duration(*v) * time.Second
	}
	if v := cfg.DefaultPendingTimeoutSeconds; v != nil {
		return time.Duration(*v) * time.Second
	}
	return 0
}

func refForceDelete(cfg *configv1alpha1.JobExecutionConfig) time.Duration {
	if v := cfg.ForceDeleteTaskTimeoutSeconds; v != nil {
		return time.Duration(*v) * time.Second
	}
	return 0
}

func refMaxAttempts(rj *execution.Job) int64 {
	if t := rj.Spec.Template; t != nil && t.MaxAttempts != nil {
		return *t.MaxAttempts
	}
	return 1
}

func refRetryDelay(rj *execution.Job) time.Duration {
	if t := rj.Spec.Template; t != nil && t.RetryDelaySeconds != nil {
		return time.Duration(*t.RetryDelaySeconds) * time.Second
	}
	return 0
}

func (w *jobWorld) cfg() *configv1alpha1.JobExecutionConfig { return w.scn.jobExecutionConfig() }

func (w *jobWorld) deadlines() []time.Time {
	out := w.rawDeadlines()
	if w.scn.Probes {
		for _, t := range append([]time.Time(nil), out...) {
			out = append(out, t.Add(-time.Second))
		}
	}
	return out
}

func (w *jobWorld) rawDeadlines() []time.Time {
	var out []time.Time
	cfg := w.cfg()
	for _, jk := range w.jobKeys {
		rj := w.API.Job(jk)
		if rj == nil {
			continue
		}
		if ts := rj.Spec.KillTimestamp; ts != nil {
			out = append(out, ts.Time)
		}
		if fin := rj.Status.Condition.Finished; fin != nil && rj.DeletionTimestamp == nil {
			out = append(out, fin.FinishTimestamp.Add(refTTL(rj, cfg)))
		}
		pt := refPendingTimeout(rj, cfg)
		fd := refForceDelete(cfg)
		for _, p := range w.podsOf(rj) {
			if pt > 0 && !podRan(p) && !podFinished(p) && p.DeletionTimestamp == nil {
				out = append(out, p.CreationTimestamp.Add(pt))
			}
			if fd > 0 && p.DeletionTimestamp != nil && !rj.Spec.Template.ForbidTaskForceDeletion {
				out = append(out, p.DeletionTimestamp.Add(fd))
			}
		}
		if rd := refRetryDelay(rj); rd > 0 {
			for id, end := range w.mem.LastEnd {
				if strings.HasPrefix(id, string(rj.UID)+"/") {
					out = append(out, sim.Epoch.Add(time.Duration(end)*time.Second).Add(rd))
				}
			}
		}
	}
	return out
}

func (w *jobWorld) outcome() string {
	var parts []string
	for _, jk := range w.jobKeys {
		rj := w.API.Job(jk)
		if rj == nil {
			parts = append(parts, jk+"=gone")
			continue
		}
		parts = append(parts, fmt.Sprintf("%s=%s/tasks=%d/pods=%d", rj.Name, rj.Status.Phase, len(rj.Status.Tasks), len(w.podsOf(rj))))
	}
	return strings.Join(parts, " ")
}

// ---- monitors ----

// After a terminal pod status regressed to non-terminal (something a real kubelet does not do,
// but which job.GetTaskRef explicitly defends against) only the clauses that defence is about
// are judged: recorded timestamps are never cleared and a finished Job stays finished.
var regressionMonitors = map[string]bool{"finish-time-cleared": true, "running-time-cleared": true, "unfinished-again": true,
	"start-time-changed": true, "created-tasks-decreased": true, "task-forgotten": true}

func (w *jobWorld) TakeViolations() []mc.Violation {
	vs := w.Base.TakeViolations()
	if !w.mem.Regressed {
		return vs
	}
	var out []mc.Violation
	for _, v := range vs {
		if regressionMonitors[v.Monitor] {
			out = append(out, v)
		}
	}
	return out
}

func (w *jobWorld) features() []string {
	f := w.Features()
	if w.mem.KillsUsed > 0 {
		f = append(f, "kill")
	}
	if len(w.mem.Deleted) > 0 {
		f = append(f, "delete")
	}
	sort.Strings(f)
	return f
}

func (w *jobWorld) jobByUID(uid string) *execution.Job {
	for _, jk := range w.jobKeys {
		if rj := w.API.Job(jk); rj != nil && string(rj.UID) == uid {
			return rj
		}
	}
	return nil
}

func (w *jobWorld) onWrite(wr sim.Write) {
	switch wr.Resource {
	case sim.Pods:
		w.onPodWrite(wr)
	case sim.Jobs:
		w.onJobWrite(wr)
	}
}

func numIndexes(rj *execution.Job) int {
	return len(parallel.GenerateIndexes(rj.Spec.Template.Parallelism))
}

func indexHashes(rj *execution.Job) []string {
	var out []string
	for _, idx := range parallel.GenerateIndexes(rj.Spec.Template.Parallelism) {
		h, _ := parallel.HashIndex(idx)
		out = append(out, h)
	}
	return out
}

func strategyOf(rj *execution.Job) execution.ParallelCompletionStrategy {
	if p := rj.Spec.Template.Parallelism; p != nil {
		return p.GetCompletionStrategy()
	}
	return execution.AllSuccessful
}

// truth computes the ground-truth decision of the strategy from what the
// simulated kubelet really did: (decidedSuccess, decidedFailure).
func (w *jobWorld) truth(rj *execution.Job) (bool, bool) {
	hashes := indexHashes(rj)
	succ, maybe, exhausted := 0, 0, 0
	for _, h := range hashes {
		id := string(rj.UID) + "/" + h
		if w.mem.Succeeded[id] {
			succ++
			continue
		}
		if w.mem.Maybe[id] {
			maybe++ // counts as a success for "success implied" and as a non-success for "failure implied"
		}
		// exhausted: maxAttempts pods created, all ended without (certain) success.
		if int64(w.mem.Created[id]) >= refMaxAttempts(rj) {
			allEnded := true
			for _, p := range w.podsOf(rj) {
				if podHash(p) == h && !podFinished(p) {
					allEnded = false
				}
			}
			if allEnded {
				exhausted++
			}
		}
	}
	switch strategyOf(rj) {
	case execution.AnySuccessful:
		return succ+maybe > 0, exhausted == len(hashes)
	default:
		return succ+maybe == len(hashes), exhausted > 0
	}
}

// ambiguous reports whether some index of the Job has an attempt whose success may or may not have been observed.
func (w *jobWorld) ambiguous(rj *execution.Job) bool {
	for _, h := range indexHashes(rj) {
		if w.mem.Maybe[string(rj.UID)+"/"+h] {
			return true
		}
	}
	return false
}

func (w *jobWorld) onPodWrite(wr sim.Write) {
	if wr.Actor != "ctrl" {
		return
	}
	switch wr.Verb {
	case "create":
		p := wr.New.(*corev1.Pod)
		uid := podJobUID(p)
		rj := w.jobByUID(uid)
		if rj == nil {
			w.Violate("C09", "create-for-unknown-job", "pod "+p.Name+" created for a job that does not exist", w.features()...)
			return
		}
		hash := podHash(p)
		id := uid + "/" + hash
		retry := podRetry(p)
		w.Count("C08.pod-create")
		// (a) one live task per index
		for _, q := range w.podsOf(rj) {
			if q.Name != p.Name && podHash(q) == hash && !podFinished(q) {
				w.Violate("C08", "one-live-task", fmt.Sprintf("pod %s created while %s of the same index is neither finished nor gone", p.Name, q.Name), w.features()...)
			}
		}
		// (b) retry numbers without gaps
		if retry != w.mem.Created[id] {
			w.Violate("C08", "retry-sequence", fmt.Sprintf("pod %s created with retry %d but %d pods were created for this index before", p.Name, retry, w.mem.Created[id]), w.features()...)
		}
		if w.mem.CreatedName[p.Name] {
			w.Violate("C09", "attempt-duplicated", fmt.Sprintf("a second pod was created for attempt %s", p.Name), w.features()...)
		}
		// (c) attempts bound
		if int64(w.mem.Created[id]) >= refMaxAttempts(rj) {
			w.Violate("C08", "max-attempts", fmt.Sprintf("pod %s is attempt %d of max %d", p.Name, w.mem.Created[id]+1, refMaxAttempts(rj)), w.features()...)
		}
		// (d) retry delay
		if end, ok := w.mem.LastEnd[id]; ok && w.mem.Created[id] > 0 {
			if int64(w.Offset()) < end+int64(refRetryDelay(rj).Seconds()) {
				w.Violate("C08", "retry-delay", fmt.Sprintf("pod %s created at +%ds, previous attempt ended at +%ds, retryDelay %v", p.Name, int64(w.Offset()), end, refRetryDelay(rj)), w.features()...)
			}
		}
		// (e) gates
		if w.mem.Succeeded[id] {
			// Only a violation if the controller could know: the success is in its pod cache, in the status, or was once recorded by itself.
			if w.successKnown(rj, hash) || w.mem.RecordedSucc[id] {
				w.Violate("C08", "create-after-success", fmt.Sprintf("pod %s created for an index that already succeeded", p.Name), w.features()...)
			}
		}
		if rj.Status.Condition.Finished != nil || (rj.Status.ParallelStatus != nil && rj.Status.ParallelStatus.Complete) {
			w.Violate("C08", "create-after-complete", fmt.Sprintf("pod %s created although the job status already says complete/finished", p.Name), w.features()...)
		}
		if rj.Status.Condition.Finished == nil && w.completeKnown(rj) {
			// Not yet written, but decided by what the controller has in front of it in this very sync
			// (its own status plus the task states in its pod cache).
			w.Violate("C08", "create-after-complete", fmt.Sprintf("pod %s created although the tasks the controller already knows of complete the job", p.Name), w.features()...)
		}
		if cj := w.cachedJob(sim.ObjKey(rj)); cj != nil {
			if cj.Spec.KillTimestamp != nil {
				w.Violate("C08", "create-with-kill", fmt.Sprintf("pod %s created although the job has a kill timestamp", p.Name), w.features()...)
			}
			if _, ok := jobutil.GetAdmissionErrorMessage(cj); ok {
				w.Violate("C08", "create-with-admission-error", fmt.Sprintf("pod %s created although the job has an admission error", p.Name), w.features()...)
			}
			if cj.DeletionTimestamp != nil {
				w.Violate("C08", "create-while-deleting", fmt.Sprintf("pod %s created although the job is being deleted", p.Name), w.features()...)
			}
		}
		if w.mem.KillPassed[sim.ObjKey(rj)] && rj.Spec.KillTimestamp == nil {
			w.Violate("C12", "create-after-kill", fmt.Sprintf("pod %s created after the kill timestamp had passed (it was removed again afterwards)", p.Name), w.features()...)
		}
		if ts := rj.Spec.KillTimestamp; ts != nil && !ts.After(w.Now()) {
			if cj := w.cachedJob(sim.ObjKey(rj)); cj != nil && cj.Spec.KillTimestamp != nil {
				w.Violate("C12", "create-after-kill", fmt.Sprintf("pod %s created after the kill timestamp passed", p.Name), w.features()...)
			}
		}
		w.mem.Created[id]++
		w.mem.CreatedName[p.Name] = true
	case "delete", "markdelete":
		p := wr.Old.(*corev1.Pod)
		if p.Labels["foreign"] == "true" {
			w.Violate("C09", "foreign-pod-deleted", "controller deleted a pod it does not own: "+p.Name, w.features()...)
			return
		}
		rj := w.jobByUID(podJobUID(p))
		w.Count("C12.pod-delete")
		w.judgeDelete(wr, p, rj)
		if wr.Verb == "delete" {
			w.noteRemoved(p)
		}
	}
}

func (w *jobWorld) successKnown(rj *execution.Job, hash string) bool {
	for _, t := range rj.Status.Tasks {
		if t.Status.Result == execution.TaskSucceeded {
			idx := parallel.GetDefaultIndex()
			if t.ParallelIndex != nil {
				idx = *t.ParallelIndex
			}
			if h, _ := parallel.HashIndex(idx); h == hash {
				return true
			}
		}
	}
	// ... or in its pod cache, for a task it has listed (a sync only looks up the tasks of status.tasks).
	for _, p := range w.podsOf(rj) {
		if podHash(p) == hash && listedTask(rj, p.Name) {
			if cp := w.cachedPod(sim.ObjKey(p)); cp != nil && cp.Status.Phase == corev1.PodSucceeded {
				return true
			}
		}
	}
	return false
}

func listedTask(rj *execution.Job, name string) bool {
	for _, t := range rj.Status.Tasks {
		if t.Name == name {
			return true
		}
	}
	return false
}

// failureKnown: every allowed attempt of the index was created and each is known to the controller
// (status or pod cache) to have ended without success.
func (w *jobWorld) failureKnown(rj *execution.Job, hash string) bool {
	max := refMaxAttempts(rj)
	if int64(w.mem.Created[string(rj.UID)+"/"+hash]) < max {
		return false
	}
	failed := map[string]bool{}
	for _, t := range rj.Status.Tasks {
		idx := parallel.GetDefaultIndex()
		if t.ParallelIndex != nil {
			idx = *t.ParallelIndex
		}
		if h, _ := parallel.HashIndex(idx); h == hash && t.FinishTimestamp != nil && t.Status.Result != execution.TaskSucceeded {
			failed[t.Name] = true
		}
	}
	for _, p := range w.podsOf(rj) {
		if podHash(p) == hash && listedTask(rj, p.Name) {
			if cp := w.cachedPod(sim.ObjKey(p)); cp != nil && cp.Status.Phase == corev1.PodFailed {
				failed[p.Name] = true
			}
		}
	}
	return int64(len(failed)) >= max
}

// completeKnown: the completion strategy is decided by what the controller knows.
func (w *jobWorld) completeKnown(rj *execution.Job) bool {
	hashes := indexHashes(rj)
	succ, exhausted := 0, 0
	for _, h := range hashes {
		if w.successKnown(rj, h) {
			succ++
		} else if w.failureKnown(rj, h) {
			exhausted++
		}
	}
	if strategyOf(rj) == execution.AnySuccessful {
		return succ > 0 || exhausted == len(hashes)
	}
	return succ == len(hashes) || exhausted > 0
}

func (w *jobWorld) judgeDelete(wr sim.Write, p *corev1.Pod, rj *execution.Job) {
	now := w.Now()
	cfg := w.cfg()
	if rj == nil {
		// Job already gone: nothing to justify against (orphan cleanup is not modelled).
		return
	}
	cj := w.cachedJob(sim.ObjKey(rj))
	killPassed := func(j *execution.Job) bool {
		return j != nil && j.Spec.KillTimestamp != nil && !j.Spec.KillTimestamp.After(now)
	}
	deleting := func(j *execution.Job) bool { return j != nil && j.DeletionTimestamp != nil }
	justified := killPassed(rj) || killPassed(cj) || deleting(rj) || deleting(cj)
	reason := ""
	if !justified {
		// pending timeout
		pt := refPendingTimeout(rj, cfg)
		view := w.cachedPod(sim.ObjKey(p))
		if view == nil {
			view = p
		}
		if pt > 0 && !podRan(view) && !podFinished(view) && !now.Before(p.CreationTimestamp.Add(pt)) {
			justified = true
		} else if pt > 0 && !podRan(view) {
			reason = fmt.Sprintf("pending timeout %v not reached (created +%ds, now +%ds)", pt, int64(p.CreationTimestamp.Sub(sim.Epoch).Seconds()), int64(w.Offset()))
		}
	}
	if !justified {
		// strategy decided, task superfluous
		ds, df := w.truth(rj)
		if ds || df {
			justified = true
		}
	}
	if !justified {
		w.Violate("C12", "unjustified-delete", fmt.Sprintf("pod %s deleted without a passed kill timestamp, pending timeout, job deletion or decided strategy. %s", p.Name, reason), w.features()...)
	}
	if wr.Force {
		w.Count("C12.force-delete")
		fd := refForceDelete(cfg)
		switch {
		case rj.Spec.Template.ForbidTaskForceDeletion:
			w.Violate("C12", "force-delete-forbidden", "pod "+p.Name+" force-deleted although the job forbids force deletion", w.features()...)
		case fd <= 0:
			w.Violate("C12", "force-delete-disabled", "pod "+p.Name+" force-deleted although force deletion is disabled", w.features()...)
		case p.DeletionTimestamp == nil:
			w.Violate("C12", "force-delete-early", "pod "+p.Name+" force-deleted before a graceful deletion was requested", w.features()...)
		case now.Before(p.DeletionTimestamp.Add(fd)):
			w.Violate("C12", "force-delete-early", fmt.Sprintf("pod %s force-deleted at +%ds before deletionTimestamp+%v", p.Name, int64(w.Offset()), fd), w.features()...)
		}
	}
}

func condCount(c execution.JobCondition) int {
	n := 0
	if c.Queueing != nil {
		n++
	}
	if c.Waiting != nil {
		n++
	}
	if c.Running != nil {
		n++
	}
	if c.Finished != nil {
		n++
	}
	return n
}

func stateOf(c execution.JobCondition) execution.JobState {
	switch {
	case c.Queueing != nil:
		return execution.JobStateQueued
	case c.Waiting != nil:
		return execution.JobStateWaiting
	case c.Running != nil:
		return execution.JobStateRunning
	case c.Finished != nil:
		return execution.JobStateFinished
	}
	return ""
}

func (w *jobWorld) coherent(rj *execution.Job) string {
	st := rj.Status
	if n := condCount(st.Condition); n != 1 {
		return fmt.Sprintf("%d conditions set", n)
	}
	if st.State != stateOf(st.Condition) {
		return fmt.Sprintf("state %q but condition implies %q", st.State, stateOf(st.Condition))
	}
	if st.Phase.IsTerminal() != (st.Condition.Finished != nil) {
		return fmt.Sprintf("phase %q terminal=%v but finished condition set=%v", st.Phase, st.Phase.IsTerminal(), st.Condition.Finished != nil)
	}
	if st.CreatedTasks != int64(len(st.Tasks)) {
		return fmt.Sprintf("createdTasks=%d but %d tasks listed", st.CreatedTasks, len(st.Tasks))
	}
	running := 0
	for _, t := range st.Tasks {
		if !t.RunningTimestamp.IsZero() && t.FinishTimestamp.IsZero() {
			running++
		}
	}
	if st.RunningTasks != int64(running) {
		return fmt.Sprintf("runningTasks=%d but %d tasks are running", st.RunningTasks, running)
	}
	return ""
}

func (w *jobWorld) onJobWrite(wr sim.Write) {
	key := wr.Key
	switch wr.Verb {
	case "delete":
		old := wr.Old.(*execution.Job)
		w.Count("C13.job-removed")
		for _, t := range old.Status.Tasks {
			if p := w.API.Pod("default/" + t.Name); p != nil && controlledBy(p, old) {
				w.Violate("C13", "job-removed-before-tasks", fmt.Sprintf("job %s left the API while its listed task %s still exists", old.Name, p.Name), w.features()...)
				break
			}
		}
		return
	case "markdelete":
		old := wr.Old.(*execution.Job)
		if wr.Actor == "ctrl" {
			w.Count("C13.ttl-delete")
			fin := old.Status.Condition.Finished
			ttl := refTTL(old, w.cfg())
			if fin == nil {
				// The controller may delete in the very sync in which it first computes the
				// finished condition (the status write follows). Judge against ground truth:
				// the job must really be over, and the TTL is counted from the last task end.
				ds, df := w.truth(old)
				alive := 0
				var lastEnd int64
				for _, p := range w.podsOf(old) {
					if !podFinished(p) {
						alive++
					}
				}
				for id, end := range w.mem.LastEnd {
					if strings.HasPrefix(id, string(old.UID)+"/") && end > lastEnd {
						lastEnd = end
					}
				}
				killed := old.Spec.KillTimestamp != nil && !old.Spec.KillTimestamp.After(w.Now())
				_, ae := jobutil.GetAdmissionErrorMessage(old)
				switch {
				case alive > 0 || !(ds || df || killed || ae):
					w.Violate("C13", "ttl-delete-unfinished", "controller deleted job "+old.Name+" which is not finished", w.features()...)
				case !ae && !killed && int64(w.Offset()) < lastEnd+int64(ttl.Seconds()):
					w.Violate("C13", "ttl-early", fmt.Sprintf("controller deleted job %s at +%ds, last task ended +%ds, ttl %v", old.Name, int64(w.Offset()), lastEnd, ttl), w.features()...)
				}
			} else if w.Now().Before(fin.FinishTimestamp.Add(ttl)) {
				w.Violate("C13", "ttl-early", fmt.Sprintf("controller deleted job %s at +%ds, finish +%ds, ttl %v", old.Name, int64(w.Offset()), int64(fin.FinishTimestamp.Sub(sim.Epoch).Seconds()), ttl), w.features()...)
			}
		}
		if old.Status.Condition.Finished != nil {
			w.mem.EditedFin[key] = true
		}
		return
	case "create":
		return
	}
	old, new := wr.Old.(*execution.Job), wr.New.(*execution.Job)
	w.Count("C11.job-version")
	// A success the controller records after the pod disappeared was evidently observed: no longer ambiguous.
	if wr.Actor == "ctrl" {
		for _, t := range new.Status.Tasks {
			if t.Status.Result == execution.TaskSucceeded {
				idx := parallel.GetDefaultIndex()
				if t.ParallelIndex != nil {
					idx = *t.ParallelIndex
				}
				if h, err := parallel.HashIndex(idx); err == nil {
					w.mem.RecordedSucc[string(new.UID)+"/"+h] = true
				}
			}
		}
		for _, t := range new.Status.Tasks {
			if t.Status.Result == execution.TaskSucceeded && w.mem.Ended[t.Name] == "maybe-succeeded" {
				idx := parallel.GetDefaultIndex()
				if t.ParallelIndex != nil {
					idx = *t.ParallelIndex
				}
				if h, err := parallel.HashIndex(idx); err == nil {
					w.mem.Ended[t.Name] = "succeeded"
					w.mem.Succeeded[string(new.UID)+"/"+h] = true
					delete(w.mem.Maybe, string(new.UID)+"/"+h)
				}
			}
		}
	}
	// user edits after finish
	if wr.Actor == "env" && old.Status.Condition.Finished != nil && !old.Spec.KillTimestamp.Equal(new.Spec.KillTimestamp) {
		w.mem.EditedFin[key] = true
	}
	// --- C11 monotonicity (all writers) ---
	if !old.Status.StartTime.IsZero() && !old.Status.StartTime.Equal(new.Status.StartTime) {
		w.Violate("C11", "start-time-changed", fmt.Sprintf("startTime %v -> %v", old.Status.StartTime, new.Status.StartTime), w.features()...)
	}
	if of := old.Status.Condition.Finished; of != nil {
		nf := new.Status.Condition.Finished
		if nf == nil {
			w.Violate("C11", "unfinished-again", "a finished job became unfinished", w.features()...)
		} else if !w.mem.EditedFin[key] && new.DeletionTimestamp == nil {
			if of.Result != nf.Result {
				w.Violate("C11", "result-changed", fmt.Sprintf("result %s -> %s without user edit", of.Result, nf.Result), w.features()...)
			}
			if !of.FinishTimestamp.Equal(&nf.FinishTimestamp) {
				w.Violate("C11", "finish-time-changed", fmt.Sprintf("finishTime %v -> %v without user edit", of.FinishTimestamp, nf.FinishTimestamp), w.features()...)
			}
		}
	}
	if new.Status.CreatedTasks < old.Status.CreatedTasks {
		w.Violate("C11", "created-tasks-decreased", fmt.Sprintf("createdTasks %d -> %d", old.Status.CreatedTasks, new.Status.CreatedTasks), w.features()...)
	}
	newTasks := map[string]execution.TaskRef{}
	for _, t := range new.Status.Tasks {
		newTasks[t.Name] = t
	}
	for _, t := range old.Status.Tasks {
		nt, ok := newTasks[t.Name]
		if !ok {
			w.Violate("C09", "task-forgotten", "task "+t.Name+" disappeared from status.tasks", w.features()...)
			continue
		}
		// A final state read from the task itself (not the one pre-recorded when a deletion was
		// requested, which the real outcome may still replace) is the last known state for good.
		if r := t.Status.Result; t.Status.State == execution.TaskTerminated && (r == execution.TaskSucceeded || r == execution.TaskFailed) && wr.Actor == "ctrl" {
			if nt.Status.State != t.Status.State || nt.Status.Result != r {
				w.Violate("C09", "last-known-state-lost", fmt.Sprintf("task %s was recorded as %s/%s and is now listed as %s/%s", t.Name, t.Status.State, r, nt.Status.State, nt.Status.Result), w.features()...)
			}
		}
		if !t.RunningTimestamp.IsZero() && nt.RunningTimestamp.IsZero() {
			w.Violate("C11", "running-time-cleared", "task "+t.Name+" lost its running timestamp", w.features()...)
		}
		if !t.FinishTimestamp.IsZero() && nt.FinishTimestamp.IsZero() {
			w.Violate("C11", "finish-time-cleared", "task "+t.Name+" lost its finish timestamp", w.features()...)
		}
	}
	if wr.Actor != "ctrl" {
		return
	}
	// --- writes by the job controller ---
	if wr.Subresource == "status" {
		w.Count("C11.coherence")
		if msg := w.coherent(new); msg != "" {
			w.Violate("C11", "incoherent-status", msg, w.features()...)
		}
		// C09: recorded as lost while the pod exists.
		for _, t := range new.Status.Tasks {
			p := w.API.Pod("default/" + t.Name)
			if p != nil && p.Labels["foreign"] == "true" {
				w.Violate("C09", "foreign-adopted", "task "+t.Name+" is listed in status but its pod is not controlled by the job", w.features()...)
				continue
			}
			if p != nil && controlledBy(p, new) {
				w.Count("C09.task-vs-pod")
				if t.Status.State == execution.TaskDeletedFinalStateUnknown {
					w.Violate("C09", "lost-while-exists", "task "+t.Name+" recorded as DeletedFinalStateUnknown while its pod exists", w.features()...)
				} else if !t.FinishTimestamp.IsZero() && !podFinished(p) && p.DeletionTimestamp == nil {
					w.Violate("C09", "finished-while-alive", "task "+t.Name+" recorded as finished while its pod exists, is not terminal and is not being deleted", w.features()...)
				}
			}
			if p == nil && t.Status.State == "" {
				w.Violate("C09", "gone-without-state", "task "+t.Name+" is gone and has an empty last state", w.features()...)
			}
		}
		// C10: the write that makes a non-deleting job finished.
		// (a Job that is being deleted is forced to Killed / may be re-evaluated while its tasks are torn down:
		// the property exempts it)
		if nf := new.Status.Condition.Finished; nf != nil && (old.Status.Condition.Finished == nil || (old.Status.Condition.Finished.Result != nf.Result && new.DeletionTimestamp == nil)) {
			w.Count("C10.finish-write")
			fin := new.Status.Condition.Finished
			if new.DeletionTimestamp == nil {
				for _, p := range w.podsOf(new) {
					if !podFinished(p) {
						w.Violate("C10", "finished-with-live-task", fmt.Sprintf("job reported %s while pod %s is still alive", fin.Result, p.Name), w.features()...)
						break
					}
				}
			}
			ds, df := w.truth(new)
			switch fin.Result {
			case execution.JobResultSuccess:
				if !ds {
					w.Violate("C10", "success-not-implied", "job reported Success but the strategy is not satisfied by pods that really succeeded", w.features()...)
				}
			case execution.JobResultFailed:
				if !df {
					w.Violate("C10", "failure-not-implied", "job reported Failed but the strategy can still be satisfied", w.features()...)
				}
			case execution.JobResultKilled:
				if new.Spec.KillTimestamp == nil && new.DeletionTimestamp == nil {
					w.Violate("C10", "killed-not-implied", "job reported Killed without kill timestamp or deletion", w.features()...)
				}
			case execution.JobResultFinalStateUnknown:
				w.Violate("C10", "unknown-result", "job finished with FinalStateUnknown", w.features()...)
			}
		}
	}
}

// checkState evaluates state invariants and, in quiescent states, the
// quiescence predicates.
func (w *jobWorld) checkState(quiescent bool) {
	for _, jk := range w.jobKeys {
		if rj := w.API.Job(jk); rj != nil && rj.Spec.KillTimestamp != nil && rj.Spec.KillTimestamp.Time.Before(w.Now()) && !rj.Status.StartTime.IsZero() {
			// strictly in the past: from then on admission refuses to change it
			w.mem.KillPassed[jk] = true
		}
	}
	if !quiescent {
		return
	}
	// Only judge liveness when no future instant could still change things.
	future := w.HasFuture()
	now := w.Now()
	cfg := w.cfg()
	for _, jk := range w.jobKeys {
		rj := w.API.Job(jk)
		if rj == nil {
			continue
		}
		pods := w.podsOf(rj)
		w.Count("quiescent-job")
		// C11 coherence at quiescence for reconciled jobs.
		if rj.Status.Phase != "" {
			if msg := w.coherent(rj); msg != "" {
				w.Violate("C11", "incoherent-at-rest", msg, w.features()...)
			}
		}
		// C09: every controlled pod is listed.
		listed := map[string]bool{}
		for _, t := range rj.Status.Tasks {
			listed[t.Name] = true
		}
		for _, p := range pods {
			if !listed[p.Name] {
				w.Violate("C09", "pod-not-listed", "pod "+p.Name+" is controlled by the job but not listed in status.tasks at rest", w.features()...)
			}
		}
		started := !rj.Status.StartTime.IsZero()
		fin := rj.Status.Condition.Finished
		alive := 0
		for _, p := range pods {
			if !podFinished(p) {
				alive++
			}
		}
		// C12: kill liveness. At rest after the kill time: every live task must at least be
		// marked for deletion; with nothing alive the Job must be terminal.
		if ts := rj.Spec.KillTimestamp; ts != nil && !ts.After(now) && started && rj.DeletionTimestamp == nil {
			undeleted, unlisted := 0, 0
			for _, p := range pods {
				if !podFinished(p) && p.DeletionTimestamp == nil {
					undeleted++
					listed := false
					for _, t := range rj.Status.Tasks {
						if t.Name == p.Name {
							listed = true
						}
					}
					if !listed {
						unlisted++
					}
				}
			}
			killFeatures := w.features()
			if undeleted > 0 && unlisted == undeleted {
				// only tasks the Job never recorded are left (a different defect: C09)
				killFeatures = append(killFeatures, "unlisted-task")
				sort.Strings(killFeatures)
			}
			stuckOK := w.scn.KubeletDead && (rj.Spec.Template.ForbidTaskForceDeletion || refForceDelete(cfg) <= 0)
			switch {
			case undeleted > 0:
				w.Violate("C12", "kill-liveness", fmt.Sprintf("kill timestamp passed, system at rest, %d live task(s) not deleted", undeleted), killFeatures...)
			case alive > 0 && !future && !stuckOK && w.scn.KubeletDead:
				w.Violate("C12", "kill-liveness", fmt.Sprintf("kill timestamp passed, kubelet unresponsive, force deletion allowed, system at rest for good, %d task(s) still alive", alive), w.features()...)
			case alive == 0 && fin == nil:
				w.Violate("C12", "kill-liveness", "kill timestamp passed, no task alive, system at rest, job not terminal (phase "+string(rj.Status.Phase)+")", w.features()...)
			case alive == 0 && fin != nil && fin.Result != execution.JobResultKilled && fin.Result != execution.JobResultAdmissionError && !w.finishedBeforeKill(rj):
				w.Violate("C12", "kill-result", "job killed but result is "+string(fin.Result), w.features()...)
			}
		}
		// C12: pending liveness: at rest, a task past its pending deadline must be marked for deletion.
		if pt := refPendingTimeout(rj, cfg); pt > 0 && rj.DeletionTimestamp == nil {
			for _, p := range pods {
				if !podRan(p) && !podFinished(p) && p.DeletionTimestamp == nil && !now.Before(p.CreationTimestamp.Add(pt)) {
					w.Violate("C12", "pending-liveness", "pod "+p.Name+" exceeded the pending timeout, system at rest, not deleted", w.features()...)
				}
			}
		}
		// C12: force deletion liveness.
		if fd := refForceDelete(cfg); fd > 0 && !rj.Spec.Template.ForbidTaskForceDeletion && rj.DeletionTimestamp == nil && started {
			for _, p := range pods {
				if p.DeletionTimestamp != nil && !podFinished(p) && !now.Before(p.DeletionTimestamp.Add(fd)) {
					w.Violate("C12", "force-delete-liveness", "pod "+p.Name+" ignored deletion beyond the force-delete timeout, system at rest, not force-deleted", w.features()...)
				}
			}
		}
		// C10: converse. Strategy decided by ground truth => job reaches that result.
		if started && rj.Spec.KillTimestamp == nil && rj.DeletionTimestamp == nil && !future {
			if _, ae := jobutil.GetAdmissionErrorMessage(rj); !ae && !w.ambiguous(rj) {
				ds, df := w.truth(rj)
				switch {
				case ds && alive == 0 && (fin == nil || fin.Result != execution.JobResultSuccess):
					w.Violate("C10", "success-not-reached", "strategy satisfied, no task alive, system at rest, job phase "+string(rj.Status.Phase), w.features()...)
				case df && !ds && alive == 0 && (fin == nil || fin.Result != execution.JobResultFailed):
					w.Violate("C10", "failure-not-reached", "strategy unsatisfiable, no task alive, system at rest, job phase "+string(rj.Status.Phase), w.features()...)
				case (ds || df) && alive > 0 && !w.scn.KubeletDead:
					w.Violate("C10", "leftovers-not-stopped", fmt.Sprintf("strategy decided, system at rest, %d superfluous task(s) still alive", alive))
				case !ds && !df && alive == 0 && fin == nil:
					w.Violate("C08", "stuck-undecided", "no task alive, strategy undecided, attempts remain, system at rest: nothing will create the next task (phase "+string(rj.Status.Phase)+")")
				}
			}
		}
		// Armed-timer oracle: whatever the Job is waiting for in the future, a deferred
		// sync must be armed no later than one second after that instant.
		if rj.DeletionTimestamp == nil {
			armed := func(what string, prop string, d time.Time) {
				w.Count("armed-timer")
				if !d.After(now) {
					return
				}
				if due, ok := w.Queues["job"].Delayed()[jk]; ok && !due.After(d.Add(time.Second)) {
					return
				}
				w.Violate(prop, "no-wakeup-armed", fmt.Sprintf("job waits for %s at +%.0fs but no deferred sync is armed by then (armed: %v)", what, d.Sub(sim.Epoch).Seconds(), w.Queues["job"].Delayed()), w.features()...)
			}
			if fin != nil {
				armed("TTL expiry", "C13", fin.FinishTimestamp.Add(refTTL(rj, cfg)))
			}
			if started && fin == nil {
				if ts := rj.Spec.KillTimestamp; ts != nil {
					// Needed when something is left to do at the kill time: a task to delete,
					// or nothing alive so that the Job must turn Killed.
					todo := alive == 0
					for _, p := range pods {
						if !podFinished(p) && p.DeletionTimestamp == nil {
							todo = true
						}
					}
					if todo {
						armed("kill timestamp", "C12", ts.Time)
					}
				}
				pt := refPendingTimeout(rj, cfg)
				fd := refForceDelete(cfg)
				for _, p := range pods {
					if pt > 0 && !podRan(p) && !podFinished(p) && p.DeletionTimestamp == nil {
						armed("pending timeout of "+p.Name, "C12", p.CreationTimestamp.Add(pt))
					}
					if fd > 0 && p.DeletionTimestamp != nil && !podFinished(p) && !rj.Spec.Template.ForbidTaskForceDeletion {
						armed("force deletion of "+p.Name, "C12", p.DeletionTimestamp.Add(fd))
					}
				}
				if rd := refRetryDelay(rj); rd > 0 && rj.Spec.KillTimestamp == nil {
					if _, ae := jobutil.GetAdmissionErrorMessage(rj); !ae {
						ds, df := w.truth(rj)
						for _, h := range indexHashes(rj) {
							id := string(rj.UID) + "/" + h
							n := int64(w.mem.Created[id])
							if ds || df || w.mem.Succeeded[id] || n == 0 || n >= refMaxAttempts(rj) {
								continue
							}
							live := false
							for _, p := range pods {
								if podHash(p) == h && !podFinished(p) {
									live = true
								}
							}
							// The delay runs from the finish time the controller recorded for the previous attempt
							// (for a vanished pod that is the time it noticed, which it cannot know better).
							var recorded time.Time
							for _, t := range rj.Status.Tasks {
								idx := parallel.GetDefaultIndex()
								if t.ParallelIndex != nil {
									idx = *t.ParallelIndex
								}
								if th, _ := parallel.HashIndex(idx); th == h && t.FinishTimestamp != nil && t.FinishTimestamp.After(recorded) {
									recorded = t.FinishTimestamp.Time
								}
							}
							if !recorded.IsZero() && !live {
								armed("retry delay of index "+h, "C08", recorded.Add(rd))
							}
						}
					}
				}
			}
		}
		// C09: foreign pod => AdmissionError.
		if w.scn.ForeignPod != "" && jk == "default/j1" && started && !future && rj.DeletionTimestamp == nil && rj.Spec.KillTimestamp == nil {
			if rj.Status.Phase != execution.JobAdmissionError {
				w.Violate("C09", "foreign-no-admission-error", "task name occupied by a foreign pod, system at rest, job phase is "+string(rj.Status.Phase)+" instead of AdmissionError", w.features()...)
			}
		}
		// C13: deletion completes; TTL liveness.
		if rj.DeletionTimestamp != nil && len(pods) == 0 && !future && !hasOtherFinalizer(rj) {
			w.Violate("C13", "deletion-stuck", "job is being deleted, no task exists, system at rest, job still present", w.features()...)
		}
		if rj.DeletionTimestamp != nil && len(pods) > 0 && !future && !w.scn.KubeletDead {
			w.Violate("C13", "deletion-stuck", fmt.Sprintf("job is being deleted, system at rest, %d task(s) still exist", len(pods)))
		}
		if fin != nil && rj.DeletionTimestamp == nil {
			if !now.Before(fin.FinishTimestamp.Add(refTTL(rj, cfg))) {
				w.Violate("C13", "ttl-liveness", "finished job is past its TTL, system at rest, not deleted", w.features()...)
			}
		}
	}
}

func (w *jobWorld) finishedBeforeKill(rj *execution.Job) bool {
	fin := rj.Status.Condition.Finished
	return fin != nil && rj.Spec.KillTimestamp != nil && fin.FinishTimestamp.Before(rj.Spec.KillTimestamp) && fin.Result != execution.JobResultFinalStateUnknown
}

// Describe returns the scenario as JSON.
func (s JobScenario) Describe() string {
	b, _ := json.Marshal(s)
	return string(b)
}

var _ = sort.Strings
