package worlds

import (
	"context"
	"encoding/json"
	"fmt"
	"strconv"
	"strings"
	"time"

	metav1 "k8s.io/apimachinery/pkg/apis/meta/v1"
	"k8s.io/apimachinery/pkg/runtime"

	configv1alpha1 "github.com/furiko-io/furiko/apis/config/v1alpha1"
	execution "github.com/furiko-io/furiko/apis/execution/v1alpha1"
	"github.com/furiko-io/furiko/pkg/execution/controllers/croncontroller"
	"github.com/furiko-io/furiko/pkg/execution/stores/activejobstore"
	"github.com/furiko-io/furiko/pkg/execution/util/jobconfig"
	"github.com/furiko-io/furiko/pkg/runtime/reconciler"

	"verif/internal/mc"
	"verif/internal/sim"
)

// CronRecScenario parameterises the cron-reconciler world (C02).
type CronRecScenario struct {
	Name        string    `json:"name"`
	JobConfigs  []string  `json:"jobConfigs"`  // names, e.g. a, a.b, a-1, a-1700000000
	Times       []int     `json:"times"`       // schedule times, seconds after the epoch
	MaxEnqueues int       `json:"maxEnqueues"` // total schedule requests (duplicates allowed)
	Policy      string    `json:"policy"`      // concurrency policy of the JobConfigs
	Budget      mc.Budget `json:"budget"`
	DeleteJob   bool      `json:"deleteJob,omitempty"` // a created Job may be deleted by the user (then re-requested)
	// ReservedTemplateMeta: the job template carries furiko's own bookkeeping keys as user metadata
	// (a stale schedule-time annotation and a foreign job-config-uid label, e.g. pasted from a Job's YAML).
	ReservedTemplateMeta bool `json:"reservedTemplateMeta,omitempty"`
}

type cronRecMem struct {
	Enqueues  int             `json:"enqueues"`
	Requested map[string]bool `json:"requested"` // jc|t requested at least once (since last restart re-request allowed again)
	Created   map[string]int  `json:"created"`   // ownerUID|t -> Jobs created
	Deleted   map[string]bool `json:"deleted"`
}

func (m cronRecMem) clone() cronRecMem {
	c := m
	c.Requested = map[string]bool{}
	for k, v := range m.Requested {
		c.Requested[k] = v
	}
	c.Created = map[string]int{}
	for k, v := range m.Created {
		c.Created[k] = v
	}
	c.Deleted = map[string]bool{}
	for k, v := range m.Deleted {
		c.Deleted[k] = v
	}
	return c
}

type cronRecorder struct{ w *cronRecWorld }

func (r cronRecorder) CreatedJob(context.Context, *execution.JobConfig, *execution.Job) {}
func (r cronRecorder) CreateJobFailed(_ context.Context, jc *execution.JobConfig, rj *execution.Job, msg string) {
	r.w.Violate("C02", "create-refused-by-admission", fmt.Sprintf("Job %s for %s refused by admission: %s", rj.Name, jc.Name, msg))
}
func (r cronRecorder) SkippedJobSchedule(context.Context, *execution.JobConfig, time.Time, string) {
	r.w.Count("C02.skipped")
}

type cronRecWorld struct {
	*mc.Base
	scn     CronRecScenario
	mem     cronRecMem
	handler croncontroller.EnqueueHandler
	store   *activejobstore.Store
}

func init() {
	extraWorlds["cronrec"] = func(raw json.RawMessage) mc.Factory {
		var p CronRecScenario
		must(json.Unmarshal(raw, &p))
		return func() mc.World { return newCronRecWorld(p) }
	}
}

func newCronRecWorld(scn CronRecScenario) *cronRecWorld {
	w := &cronRecWorld{scn: scn}
	w.mem = cronRecMem{Requested: map[string]bool{}, Created: map[string]int{}, Deleted: map[string]bool{}}
	b := mc.NewBase(map[configv1alpha1.ConfigName]runtime.Object{}, true)
	w.Base = b
	b.Budget = scn.Budget
	b.API.OnWrite = w.onWrite
	b.FaultKinds = func(c sim.Call) []sim.FaultKind {
		if c.Verb == "create" {
			// not applied / applied but reported failed / lost the race against an identical create
			return []sim.FaultKind{sim.FaultError, sim.FaultTimeout, sim.FaultExists}
		}
		return []sim.FaultKind{sim.FaultError}
	}
	// Schedule times lie in the past of the controller's clock (they are due).
	b.Clock.SetTime(sim.Epoch.Add(time.Hour))
	policy := execution.ConcurrencyPolicy(scn.Policy)
	if policy == "" {
		policy = execution.ConcurrencyPolicyAllow
	}
	for _, n := range scn.JobConfigs {
		jc := newJobConfig(n, policy, 0)
		jc.Spec.Schedule = &execution.ScheduleSpec{Cron: &execution.CronSchedule{Expression: "* * * * *"}}
		if scn.ReservedTemplateMeta {
			jc.Spec.Template.Annotations = map[string]string{"execution.furiko.io/schedule-time": "1604188500", "team": "x"}
			jc.Spec.Template.Labels = map[string]string{"execution.furiko.io/job-config-uid": "uid-of-something-else", "team": "x"}
		}
		if _, err := b.API.Create("env", sim.JobConfigs, jc); err != nil {
			panic(err)
		}
	}
	b.Build = w.build
	b.EnvEnabled = w.envEnabled
	b.EnvApply = w.envApply
	b.ExtraKey = func() interface{} { return w.mem }
	b.CheckState = w.checkState
	b.OutcomeFn = func() string {
		var names []string
		for _, o := range b.API.List(sim.Jobs) {
			names = append(names, o.(*execution.Job).Name)
		}
		return strings.Join(names, ",")
	}
	b.Snap.CanSnapshot = true
	b.Snap.SnapExtra = func() interface{} { return w.mem.clone() }
	b.Snap.RestoreExtra = func(x interface{}) { w.mem = x.(cronRecMem).clone() }
	b.Start()
	return w
}

func (w *cronRecWorld) build(b *mc.Base) {
	store, err := activejobstore.NewStore(b.Ctx)
	if err != nil {
		panic(err)
	}
	if err := store.Recover(context.Background()); err != nil {
		panic(err)
	}
	b.Ctx.Stores().Register(store)
	w.store = store
	ctx := croncontroller.NewContext(b.Ctx)
	q := b.AddQueue("cron", nil)
	ctx.VerifSetQueue(q)
	w.handler = croncontroller.VerifNewEnqueueHandler(ctx)
	rec := cronRecorder{w}
	name := (&croncontroller.Reconciler{}).Name()
	client := croncontroller.NewExecutionControl(name, b.Ctx.Clientsets().Furiko().ExecutionV1alpha1(), rec)
	recon := croncontroller.NewReconciler(ctx, client, rec, store, &configv1alpha1.Concurrency{Workers: 1})
	ctrl := reconciler.NewController(recon, q)
	b.SetWorker("cron", ctrl)
	// A restarted controller re-requests from lastScheduled: requests may be repeated.
	w.mem.Requested = map[string]bool{}
}

func (w *cronRecWorld) envEnabled() []string {
	var out []string
	if w.mem.Enqueues < w.scn.MaxEnqueues {
		for _, n := range w.scn.JobConfigs {
			for _, t := range w.scn.Times {
				out = append(out, fmt.Sprintf("enq:%s:%d", n, t))
			}
		}
	}
	if w.scn.DeleteJob {
		for _, o := range w.API.List(sim.Jobs) {
			rj := o.(*execution.Job)
			if !w.mem.Deleted[rj.Name] {
				out = append(out, "u:purge:"+rj.Name)
			}
		}
	}
	return out
}

func (w *cronRecWorld) envApply(action string) {
	parts := strings.Split(action, ":")
	switch parts[0] {
	case "enq":
		w.mem.Enqueues++
		t, _ := strconv.Atoi(parts[2])
		// The CronWorker hands the JobConfig from its cache to the handler.
		o, ok, _ := w.Ctx.Set.JobConfigs.GetIndexer().GetByKey("default/" + parts[1])
		if !ok {
			return
		}
		w.mem.Requested[parts[1]+"|"+parts[2]] = true
		if err := w.handler.EnqueueJobConfig(o.(*execution.JobConfig), sim.Epoch.Add(time.Duration(t)*time.Second)); err != nil {
			w.Violate("C02", "enqueue-error", err.Error())
		}
	case "u":
		w.mem.Deleted[parts[2]] = true
		w.API.EnvRemove(sim.Jobs, "default/"+parts[2])
	default:
		panic("unknown env action " + action)
	}
}

func (w *cronRecWorld) onWrite(wr sim.Write) {
	if wr.Resource != sim.Jobs || wr.Verb != "create" || wr.Actor != "ctrl" {
		return
	}
	rj := wr.New.(*execution.Job)
	w.Count("C02.job-create")
	f := w.Features()
	// exactly one controller owner: a JobConfig that exists, and the UID label of that JobConfig
	var owner *execution.JobConfig
	controllers := 0
	for _, ref := range rj.OwnerReferences {
		if ref.Controller != nil && *ref.Controller {
			controllers++
			if jc := w.API.JobConfig("default/" + ref.Name); jc != nil && jc.UID == ref.UID && ref.Kind == "JobConfig" {
				owner = jc
			}
		}
	}
	if controllers != 1 || owner == nil {
		w.Violate("C02", "owner", fmt.Sprintf("job %s has %d controller owner references / unknown owner", rj.Name, controllers), f...)
		return
	}
	if rj.Labels[jobconfig.LabelKeyJobConfigUID] != string(owner.UID) {
		w.Violate("C02", "uid-label", fmt.Sprintf("job %s labelled %q, owner UID %q", rj.Name, rj.Labels[jobconfig.LabelKeyJobConfigUID], owner.UID), f...)
	}
	ann := rj.Annotations[jobconfig.AnnotationKeyScheduleTime]
	ts, err := strconv.ParseInt(ann, 10, 64)
	if err != nil {
		w.Violate("C02", "schedule-time-annotation", fmt.Sprintf("job %s has schedule-time annotation %q", rj.Name, ann), f...)
		return
	}
	if want := fmt.Sprintf("%s-%d", owner.Name, ts); rj.Name != want {
		w.Violate("C02", "name-function", fmt.Sprintf("job name %q, expected %q (jobconfig name + schedule time)", rj.Name, want), f...)
	}
	off := ts - sim.Epoch.Unix()
	if !w.requestedEver(owner.Name, off) {
		w.Violate("C02", "unrequested", fmt.Sprintf("job %s created for (%s, +%ds) which was never requested", rj.Name, owner.Name, off), f...)
	}
	id := string(owner.UID) + "|" + ann
	// Uniqueness among Jobs that exist: never two at once for the same (JobConfig, schedule time).
	for _, o := range w.API.List(sim.Jobs) {
		other := o.(*execution.Job)
		if other.Name != rj.Name && other.Labels[jobconfig.LabelKeyJobConfigUID] == string(owner.UID) && other.Annotations[jobconfig.AnnotationKeyScheduleTime] == ann {
			w.Violate("C02", "duplicate", fmt.Sprintf("jobs %s and %s both exist for (%s, %s)", other.Name, rj.Name, owner.Name, ann), f...)
		}
	}
	w.mem.Created[id]++
	if w.mem.Created[id] > 1 && !w.scn.DeleteJob {
		w.Violate("C02", "created-twice", fmt.Sprintf("a second Job was created for (%s, %s)", owner.Name, ann), f...)
	}
	if rj.Spec.StartPolicy == nil || rj.Spec.StartPolicy.ConcurrencyPolicy != owner.Spec.Concurrency.Policy {
		w.Violate("C02", "policy", fmt.Sprintf("job %s does not carry the JobConfig's concurrency policy", rj.Name), f...)
	}
	if rj.Spec.Type != execution.JobTypeScheduled {
		w.Violate("C02", "type", fmt.Sprintf("job %s has type %q", rj.Name, rj.Spec.Type), f...)
	}
}

var everRequested = map[string]bool{}

func (w *cronRecWorld) requestedEver(name string, off int64) bool {
	for _, n := range w.scn.JobConfigs {
		if n != name {
			continue
		}
		for _, t := range w.scn.Times {
			if int64(t) == off {
				return true // in the request alphabet; whether it was requested on this path is judged at rest
			}
		}
	}
	return false
}

func (w *cronRecWorld) checkState(quiescent bool) {
	if !quiescent {
		return
	}
	w.Count("quiescent")
	if w.scn.Policy != "" && w.scn.Policy != "Allow" {
		return
	}
	// Every (JobConfig, time) requested since the last restart has its Job, unless the user removed it afterwards.
	for k := range w.mem.Requested {
		parts := strings.Split(k, "|")
		t, _ := strconv.Atoi(parts[1])
		name := fmt.Sprintf("%s-%d", parts[0], sim.Epoch.Unix()+int64(t))
		if w.API.Job("default/"+name) == nil && !w.mem.Deleted[name] {
			w.Violate("C02", "requested-not-created", fmt.Sprintf("(%s, +%ds) was requested, system at rest, Job %s does not exist", parts[0], t, name), w.Features()...)
		}
	}
}

var _ = metav1.Now
