package worlds

import (
	"testing"

	"k8s.io/klog/v2"
)

type devNull struct{}

func (devNull) Write(p []byte) (int, error) { return len(p), nil }

func BenchmarkJobWorldConstruct(b *testing.B) {
	klog.SetOutput(devNull{})
	klog.LogToStderr(false)
	s := ScenariosFor("C08", "quick")[4]
	f := Factory(s)
	for i := 0; i < b.N; i++ {
		w := f()
		_ = w
	}
}

func BenchmarkJobWorldPath(b *testing.B) {
	klog.SetOutput(devNull{})
	klog.LogToStderr(false)
	s := ScenariosFor("C08", "quick")[4]
	f := Factory(s)
	for i := 0; i < b.N; i++ {
		w := f()
		for k := 0; k < 16; k++ {
			en := w.Enabled()
			if len(en) == 0 {
				break
			}
			w.Apply(en[len(en)-1])
		}
		w.Key()
	}
}
