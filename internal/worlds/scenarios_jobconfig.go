package worlds

import "verif/internal/mc"

func init() {
	register("C15", func(thorough bool) []Scenario {
		var out []Scenario
		add := func(s JobConfigScenario) { out = append(out, mk("jobconfig", "C15/"+s.Name, s)) }
		kinds := []string{"scheduled", "adhoc"}
		add(JobConfigScenario{Name: "enabled-3jobs-delete", Schedule: "enabled", MaxJobs: 3, Kinds: kinds, Delete: true})
		add(JobConfigScenario{Name: "enabled-2jobs-delete-lag1", Schedule: "enabled", MaxJobs: 2, Kinds: kinds, Delete: true, Budget: mc.Budget{Lag: 1}})
		add(JobConfigScenario{Name: "disabled-2jobs-lag2", Schedule: "disabled", MaxJobs: 2, Kinds: []string{"scheduled"}, Delete: true, Budget: mc.Budget{Lag: 2}})
		add(JobConfigScenario{Name: "noschedule-2jobs-fault1", Schedule: "none", MaxJobs: 2, Kinds: []string{"adhoc"}, Delete: true, Budget: mc.Budget{Faults: 1}})
		add(JobConfigScenario{Name: "enabled-2jobs-delete-tombstones", Schedule: "enabled", MaxJobs: 2, Kinds: kinds, Delete: true, Tombstones: true})
		add(JobConfigScenario{Name: "preexisting2-restart", Schedule: "enabled", MaxJobs: 1, Preexist: 2, Kinds: []string{"scheduled"}, Delete: true, Budget: mc.Budget{Crashes: 1}})
		add(JobConfigScenario{Name: "preexisting2-coldrestart", Schedule: "enabled", MaxJobs: 1, Preexist: 2, Kinds: []string{"scheduled"}, Delete: true, ColdStart: true, Budget: mc.Budget{Crashes: 1}})
		add(JobConfigScenario{Name: "enabled-2jobs-fault1-lag1", Schedule: "enabled", MaxJobs: 2, Kinds: []string{"scheduled"}, Delete: true, Budget: mc.Budget{Faults: 1, Lag: 1}})
		if thorough {
			add(JobConfigScenario{Name: "enabled-3jobs-lag1", Schedule: "enabled", MaxJobs: 3, Kinds: []string{"scheduled"}, Delete: false, Budget: mc.Budget{Lag: 1}})
			add(JobConfigScenario{Name: "enabled-2jobs-delete-lag2", Schedule: "enabled", MaxJobs: 2, Kinds: kinds, Delete: true, Budget: mc.Budget{Lag: 2}})
			add(JobConfigScenario{Name: "enabled-3jobs-fault2-crash1", Schedule: "enabled", MaxJobs: 3, Kinds: []string{"scheduled"}, Delete: true, Budget: mc.Budget{Faults: 2, Crashes: 1}})
			add(JobConfigScenario{Name: "enabled-4jobs", Schedule: "enabled", MaxJobs: 4, Kinds: []string{"scheduled"}, Delete: true})
		}
		return out
	})
}
