package worlds

import "verif/internal/mc"

func init() {
	register("C02", func(thorough bool) []Scenario {
		var out []Scenario
		add := func(s CronRecScenario) { out = append(out, mk("cronrec", "C02/"+s.Name, s)) }
		names := []string{"a", "a.b", "a-1", "a-1700000000"}
		t1, t2 := 60, 120
		add(CronRecScenario{Name: "two-configs-dup-requests-lag1", JobConfigs: []string{"a", "a.b"}, Times: []int{t1, t2}, MaxEnqueues: 4, Budget: mc.Budget{Lag: 1}})
		add(CronRecScenario{Name: "one-config-dup-requests-lag2", JobConfigs: []string{"a-1"}, Times: []int{t1, t2}, MaxEnqueues: 4, Budget: mc.Budget{Lag: 2}})
		add(CronRecScenario{Name: "name-alphabet", JobConfigs: names, Times: []int{t1}, MaxEnqueues: 3})
		add(CronRecScenario{Name: "fault1-crash1", JobConfigs: []string{"a", "a-1700000000"}, Times: []int{t1, t2}, MaxEnqueues: 3, Budget: mc.Budget{Faults: 1, Crashes: 1}})
		add(CronRecScenario{Name: "fault2-lag1", JobConfigs: []string{"a.b"}, Times: []int{t1, t2}, MaxEnqueues: 3, Budget: mc.Budget{Faults: 2, Lag: 1}})
		add(CronRecScenario{Name: "forbid-policy", JobConfigs: []string{"a"}, Times: []int{t1, t2}, MaxEnqueues: 3, Policy: "Forbid", Budget: mc.Budget{Lag: 1, Faults: 1}})
		add(CronRecScenario{Name: "deleted-then-rerequested", JobConfigs: []string{"a"}, Times: []int{t1}, MaxEnqueues: 3, DeleteJob: true, Budget: mc.Budget{Lag: 1}})
		add(CronRecScenario{Name: "reserved-keys-in-template", JobConfigs: []string{"a", "a-1"}, Times: []int{t1, t2}, MaxEnqueues: 3, ReservedTemplateMeta: true, Budget: mc.Budget{Lag: 1}})
		if thorough {
			add(CronRecScenario{Name: "two-configs-4-requests-lag2-fault1-crash1", JobConfigs: []string{"a", "a.b"}, Times: []int{t1, t2}, MaxEnqueues: 4, Budget: mc.Budget{Lag: 2, Faults: 1, Crashes: 1}})
			add(CronRecScenario{Name: "name-alphabet-fault2", JobConfigs: names, Times: []int{t1, t2}, MaxEnqueues: 3, Budget: mc.Budget{Faults: 2}})
		}
		return out
	})
}
