package worlds

import "verif/internal/mc"

// C20 (a): the controller worlds re-run with a fault budget; every safety monitor is active.
func init() {
	register("C20", func(thorough bool) []Scenario {
		f := 1
		if thorough {
			f = 2
		}
		var out []Scenario
		// job controller
		for _, shape := range []string{"none", "count2"} {
			s := jobBase(shape + "-att2-faults")
			s.Parallelism, s.MaxAttempts, s.MaxFail = shape, 2, 1
			s.TTLJob, s.Horizon = i64(60), 4000
			s.Budget = mc.Budget{Faults: f}
			if shape == "count2" {
				s.MaxAttempts = 1
			}
			out = append(out, mk("job", "C20/job-"+s.Name, s))
		}
		fl := jobBase("none-att1-fault1-lag1")
		fl.PodActions = fullPod
		fl.Budget = mc.Budget{Faults: 1, Lag: 1}
		out = append(out, mk("job", "C20/job-"+fl.Name, fl))
		s := jobBase("none-kill-delete-faults")
		s.PodActions = fullPod
		s.Kill, s.MaxKill, s.DeleteJob = []string{"0"}, 1, true
		s.Budget = mc.Budget{Faults: 1}
		out = append(out, mk("job", "C20/job-"+s.Name, s))
		// the same failing call twice in a row (e.g. two failed Pod deletes of a killed Job)
		k2 := jobBase("none-kill-faults2")
		k2.PodActions = []string{"run"}
		k2.Kill, k2.MaxKill = []string{"0"}, 1
		k2.Budget = mc.Budget{Faults: 2}
		out = append(out, mk("job", "C20/job-"+k2.Name, k2))
		// queue controller
		q := QueueScenario{Name: "forbid-enqueue-faults", MaxConcurrency: 1, Creates: []string{"Forbid", "Enqueue", "Enqueue"}, MaxCreates: 3, Horizon: 600, Budget: mc.Budget{Faults: f}}
		out = append(out, mk("queue", "C20/queue-"+q.Name, q))
		q = QueueScenario{Name: "enqueue-max2-faults-lag1", MaxConcurrency: 2, Creates: []string{"Enqueue", "Enqueue", "Enqueue"}, MaxCreates: 3, Horizon: 600, Budget: mc.Budget{Faults: 1, Lag: 1}}
		out = append(out, mk("queue", "C20/queue-"+q.Name, q))
		// cron reconciler
		c := CronRecScenario{Name: "faults", JobConfigs: []string{"a", "a.b"}, Times: []int{60, 120}, MaxEnqueues: 3, Budget: mc.Budget{Faults: f + 1}}
		out = append(out, mk("cronrec", "C20/cronrec-"+c.Name, c))
		// jobconfig controller
		j := JobConfigScenario{Name: "faults", Schedule: "enabled", MaxJobs: 2, Kinds: []string{"scheduled"}, Delete: true, Budget: mc.Budget{Faults: f + 1}}
		out = append(out, mk("jobconfig", "C20/jobconfig-"+j.Name, j))
		return out
	})
}
