package worlds

import (
	"context"
	"encoding/json"
	"fmt"
	"sort"
	"strconv"
	"strings"
	"time"

	corev1 "k8s.io/api/core/v1"
	metav1 "k8s.io/apimachinery/pkg/apis/meta/v1"
	"k8s.io/apimachinery/pkg/runtime"
	"k8s.io/client-go/tools/record"

	configv1alpha1 "github.com/furiko-io/furiko/apis/config/v1alpha1"
	execution "github.com/furiko-io/furiko/apis/execution/v1alpha1"
	"github.com/furiko-io/furiko/pkg/execution/controllers/jobcontroller"
	"github.com/furiko-io/furiko/pkg/execution/controllers/jobqueuecontroller"
	"github.com/furiko-io/furiko/pkg/execution/stores/activejobstore"
	jobutil "github.com/furiko-io/furiko/pkg/execution/util/job"
	"github.com/furiko-io/furiko/pkg/execution/util/jobconfig"
	"github.com/furiko-io/furiko/pkg/runtime/controllercontext"
	"github.com/furiko-io/furiko/pkg/runtime/reconciler"

	"verif/internal/mc"
	"verif/internal/sim"
)

// QueueScenario parameterises the job-queue world (C05-C07, C20).
type QueueScenario struct {
	Name           string `json:"name"`
	MaxConcurrency int64  `json:"maxConcurrency"`
	// Creates is the menu of Job kinds the user may create, each at most once
	// unless repeated: "Forbid", "Enqueue", "Allow", "Ind" (independent),
	// optionally with a startAfter offset "Enqueue@5" (seconds from creation).
	Creates     []string `json:"creates"`
	MaxCreates  int      `json:"maxCreates"`
	Delete      bool     `json:"delete,omitempty"`      // user may delete any Job
	NoFinish    bool     `json:"noFinish,omitempty"`    // started Jobs never finish
	Preexisting []string `json:"preexisting,omitempty"` // Jobs existing (queued) before the controller starts

	Budget  mc.Budget `json:"budget"`
	Horizon int       `json:"horizon,omitempty"`
	// ListenerLag: the store's informer listener runs as its own transition (later than the cache
	// update and the queue controller's listener); one resync round happens before quiescence.
	ListenerLag bool `json:"listenerLag,omitempty"`
	// Tombstones: deletions are only noticed by a relist (handlers get DeletedFinalStateUnknown).
	Tombstones bool `json:"tombstones,omitempty"`
	// ColdStart: after a restart the Job and JobConfig informers list in either order, handlers
	// run against whatever the other cache holds by then; the store recovers once both have listed.
	ColdStart bool `json:"coldStart,omitempty"`
}

type queueMem struct {
	Created   int             `json:"created"`
	UsedKinds map[string]int  `json:"usedKinds"`
	Deleted   map[string]bool `json:"deleted"`
	// Rejected records Jobs that received an admission-error annotation.
	Rejected map[string]bool `json:"rejected"`
}

func (m queueMem) clone() queueMem {
	c := m
	c.UsedKinds = map[string]int{}
	for k, v := range m.UsedKinds {
		c.UsedKinds[k] = v
	}
	c.Deleted = map[string]bool{}
	for k, v := range m.Deleted {
		c.Deleted[k] = v
	}
	c.Rejected = map[string]bool{}
	for k, v := range m.Rejected {
		c.Rejected[k] = v
	}
	return c
}

type queueWorld struct {
	*mc.Base
	scn   QueueScenario
	mem   queueMem
	store *activejobstore.Store
	jcKey string
}

// NewQueueWorld builds the factory of a job-queue world.
func NewQueueWorld(scn QueueScenario) mc.Factory {
	return func() mc.World { return newQueueWorld(scn) }
}

func init() {
	extraWorlds["queue"] = func(raw json.RawMessage) mc.Factory {
		var p QueueScenario
		must(json.Unmarshal(raw, &p))
		return NewQueueWorld(p)
	}
}

func podTemplate() execution.PodTemplateSpec {
	return execution.PodTemplateSpec{
		Spec: corev1.PodSpec{Containers: []corev1.Container{{Name: "c", Image: "busybox", Args: []string{"echo"}}}},
	}
}

func newJobConfig(name string, policy execution.ConcurrencyPolicy, maxConc int64) *execution.JobConfig {
	pt := podTemplate()
	jc := &execution.JobConfig{
		TypeMeta:   metav1.TypeMeta{APIVersion: "execution.furiko.io/v1alpha1", Kind: "JobConfig"},
		ObjectMeta: metav1.ObjectMeta{Namespace: "default", Name: name},
		Spec: execution.JobConfigSpec{
			Template: execution.JobTemplateSpec{
				Spec: execution.JobTemplate{TaskTemplate: execution.TaskTemplate{Pod: &pt}},
			},
			Concurrency: execution.ConcurrencySpec{Policy: policy},
		},
	}
	if maxConc > 0 {
		jc.Spec.Concurrency.MaxConcurrency = i64(maxConc)
	}
	return jc
}

func newQueueWorld(scn QueueScenario) *queueWorld {
	cfgs := map[configv1alpha1.ConfigName]runtime.Object{}
	w := &queueWorld{scn: scn, jcKey: "default/jc1"}
	w.mem = queueMem{UsedKinds: map[string]int{}, Deleted: map[string]bool{}, Rejected: map[string]bool{}}
	b := mc.NewBase(cfgs, true)
	w.Base = b
	b.Budget = scn.Budget
	b.Tombstones = scn.Tombstones
	if scn.ColdStart {
		b.ColdStart = true
		b.ColdResources = []string{sim.JobConfigs, sim.Jobs}
		b.ResyncMode = true // a dropped initial notification is only repaired by the periodic resync
	}
	b.Horizon = time.Duration(scn.Horizon) * time.Second
	b.API.OnWrite = w.onWrite
	if _, err := b.API.Create("env", sim.JobConfigs, newJobConfig("jc1", execution.ConcurrencyPolicyForbid, scn.MaxConcurrency)); err != nil {
		panic(fmt.Sprintf("jobconfig rejected: %v", err))
	}
	for _, kind := range scn.Preexisting {
		w.createJob(kind)
	}
	b.Build = w.build
	b.EnvEnabled = w.envEnabled
	b.EnvApply = w.envApply
	b.Deadlines = w.deadlines
	b.ExtraKey = func() interface{} {
		return map[string]interface{}{"mem": w.mem, "store": w.storeCount()}
	}
	b.CheckState = w.checkState
	b.OutcomeFn = w.outcome
	b.Snap.CanSnapshot = true
	b.Snap.SnapExtra = func() interface{} { return [2]interface{}{w.mem.clone(), w.storeCount()} }
	b.Snap.RestoreExtra = func(x interface{}) {
		pair := x.([2]interface{})
		w.mem = pair[0].(queueMem).clone()
		w.setStoreCount(pair[1].(int64))
	}
	b.Start()
	return w
}

func (w *queueWorld) jc() *execution.JobConfig { return w.API.JobConfig(w.jcKey) }

func (w *queueWorld) storeCount() int64 {
	if w.store == nil || w.jc() == nil {
		return 0
	}
	return w.store.CountActiveJobsForConfig(w.jc())
}

func (w *queueWorld) setStoreCount(want int64) {
	jc := w.jc()
	if jc == nil || w.store == nil {
		return
	}
	for i := 0; i < 64; i++ {
		cur := w.store.CountActiveJobsForConfig(jc)
		switch {
		case cur == want:
			return
		case cur > want:
			w.store.Delete(jc)
		default:
			w.store.CheckAndAdd(jc, cur)
		}
	}
	panic("cannot restore store counter")
}

func (w *queueWorld) build(b *mc.Base) {
	if w.scn.ListenerLag {
		// The store registers its listener first (index 0) in Recover.
		b.Ctx.Set.Jobs.LagHandlers = map[int]bool{0: true}
		b.ResyncMode = true
	}
	store, err := activejobstore.NewStore(b.Ctx)
	if err != nil {
		panic(err)
	}
	recoverStore := func() {
		if err := store.Recover(context.Background()); err != nil {
			panic(err)
		}
	}
	if !b.ColdStart {
		recoverStore()
	}
	b.Ctx.Stores().Register(store)
	w.store = store
	// Preemption points at the synchronisation operations of the store (CHESS discipline):
	// the informer goroutine may deliver a Job event between the count read and the CAS.
	b.PreemptResource = sim.Jobs
	b.Ctx.StoresOverride = pointStores{Stores: b.Ctx.Context.Stores(), base: b}

	ctx := jobqueuecontroller.NewContextWithRecorder(b.Ctx, &record.FakeRecorder{})
	jcq := b.AddQueue("jcq", nil)
	indq := b.AddQueue("indq", nil)
	ctx.VerifSetQueues(jcq, indq)
	jobqueuecontroller.NewInformerWorker(ctx)
	control := jobqueuecontroller.NewJobControl(b.Ctx.Clientsets().Furiko().ExecutionV1alpha1(), &record.FakeRecorder{})
	conc := &configv1alpha1.Concurrency{Workers: 1}
	b.SetWorker("jcq", reconciler.NewController(jobqueuecontroller.NewPerConfigReconciler(ctx, conc, control), jcq))
	b.SetWorker("indq", reconciler.NewController(jobqueuecontroller.NewIndependentReconciler(ctx, conc, control), indq))
	if b.ColdStart {
		// the controller manager recovers the stores after the caches have synced
		b.WhenSynced(recoverStore)
	}
}

// ---- environment ----

func parseKind(k string) (policy string, after int, hasAfter bool) {
	policy = k
	if i := strings.IndexByte(k, '@'); i >= 0 {
		policy = k[:i]
		after, _ = strconv.Atoi(k[i+1:])
		hasAfter = true
	}
	return
}

func (w *queueWorld) jobs() []*execution.Job {
	var out []*execution.Job
	for _, o := range w.API.List(sim.Jobs) {
		out = append(out, o.(*execution.Job))
	}
	return out
}

func (w *queueWorld) createJob(kind string) {
	policy, after, hasAfter := parseKind(kind)
	// Creation timestamps have second granularity; keep them strictly increasing so that
	// creation order is observable.
	for _, rj := range w.jobs() {
		if !rj.CreationTimestamp.Time.Before(w.Now().Truncate(time.Second)) {
			w.Clock.SetTime(w.Now().Add(time.Second))
			for _, qn := range w.QueueNames {
				w.Queues[qn].Promote()
			}
			break
		}
	}
	w.mem.Created++
	w.mem.UsedKinds[kind]++
	name := fmt.Sprintf("j%d", w.mem.Created)
	var rj *execution.Job
	if policy == "Ind" {
		pt := podTemplate()
		rj = &execution.Job{
			TypeMeta:   metav1.TypeMeta{APIVersion: "execution.furiko.io/v1alpha1", Kind: "Job"},
			ObjectMeta: metav1.ObjectMeta{Namespace: "default", Name: name},
			Spec: execution.JobSpec{
				Template: &execution.JobTemplate{TaskTemplate: execution.TaskTemplate{Pod: &pt}},
			},
		}
		if hasAfter {
			ts := metav1.NewTime(w.Now().Truncate(time.Second).Add(time.Duration(after) * time.Second)) // whole seconds, like every serialised time
			rj.Spec.StartPolicy = &execution.StartPolicySpec{ConcurrencyPolicy: execution.ConcurrencyPolicyAllow, StartAfter: &ts}
		}
	} else {
		var err error
		rj, err = jobconfig.NewJobFromJobConfig(w.jc(), execution.JobTypeAdhoc, w.Now())
		if err != nil {
			panic(err)
		}
		rj.TypeMeta = metav1.TypeMeta{APIVersion: "execution.furiko.io/v1alpha1", Kind: "Job"}
		rj.Name = name
		rj.Spec.StartPolicy = &execution.StartPolicySpec{ConcurrencyPolicy: execution.ConcurrencyPolicy(policy)}
		if hasAfter {
			ts := metav1.NewTime(w.Now().Truncate(time.Second).Add(time.Duration(after) * time.Second)) // whole seconds, like every serialised time
			rj.Spec.StartPolicy.StartAfter = &ts
		}
	}
	if _, err := w.API.Create("env", sim.Jobs, rj); err != nil {
		panic(fmt.Sprintf("job rejected by admission: %v", err))
	}
}

func (w *queueWorld) envEnabled() []string {
	var out []string
	if w.mem.Created < w.scn.MaxCreates {
		seen := map[string]int{}
		for _, k := range w.scn.Creates {
			seen[k]++
		}
		kinds := make([]string, 0, len(seen))
		for k := range seen {
			kinds = append(kinds, k)
		}
		sort.Strings(kinds)
		for _, k := range kinds {
			if w.mem.UsedKinds[k] < seen[k] {
				out = append(out, "u:create:"+k)
			}
		}
	}
	for _, rj := range w.jobs() {
		// The job controller (abstracted): recompute the status with the real
		// UpdateJobStatusFromTaskRefs when that changes something.
		if rj.DeletionTimestamp != nil {
			out = append(out, "jc:finalize:"+rj.Name)
			// The object may also vanish with its last observed state still active
			// (finalizer patched away, or the final status write not observed).
			out = append(out, "u:purge:"+rj.Name)
			continue
		}
		if w.jobctlWouldChange(rj) {
			out = append(out, "jc:sync:"+rj.Name)
		}
		if jobutil.IsActive(rj) && !w.scn.NoFinish {
			out = append(out, "jc:finish:"+rj.Name)
		}
		if w.scn.Delete && !w.mem.Deleted[rj.Name] {
			out = append(out, "u:delete:"+rj.Name)
		}
	}
	return out
}

func (w *queueWorld) jobctlStatus(rj *execution.Job) *execution.Job {
	newRj, err := jobcontroller.UpdateJobStatusFromTaskRefs(rj)
	if err != nil {
		panic(err)
	}
	return newRj
}

func (w *queueWorld) jobctlWouldChange(rj *execution.Job) bool {
	// Only status changes that matter to the queue controller are modelled as
	// separate job-controller steps: a Job becoming terminal (refused Jobs).
	newRj := w.jobctlStatus(rj)
	return newRj.Status.Phase.IsTerminal() != rj.Status.Phase.IsTerminal()
}

func (w *queueWorld) envApply(action string) {
	parts := strings.SplitN(action, ":", 3)
	switch parts[0] + ":" + parts[1] {
	case "u:create":
		w.createJob(parts[2])
	case "u:delete":
		w.mem.Deleted[parts[2]] = true
		if err := w.API.Delete("env", sim.Jobs, "default/"+parts[2], -1); err != nil {
			panic(err)
		}
	case "u:purge":
		w.API.EnvRemove(sim.Jobs, "default/"+parts[2])
	case "jc:finalize":
		w.API.EnvMutate(sim.Jobs, "default/"+parts[2], func(o runtime.Object) {
			rj := o.(*execution.Job)
			st := w.jobctlStatus(rj)
			rj.Status = st.Status
			rj.Finalizers = nil
		})
		// EnvMutate does not run the finalizer logic of Update; remove explicitly.
		if rj := w.API.Job("default/" + parts[2]); rj != nil && len(rj.Finalizers) == 0 {
			w.API.EnvRemove(sim.Jobs, "default/"+parts[2])
		}
	case "jc:sync":
		w.API.EnvMutate(sim.Jobs, "default/"+parts[2], func(o runtime.Object) {
			rj := o.(*execution.Job)
			rj.Status = w.jobctlStatus(rj).Status
		})
	case "jc:finish":
		w.API.EnvMutate(sim.Jobs, "default/"+parts[2], func(o runtime.Object) {
			rj := o.(*execution.Job)
			now := metav1.NewTime(w.Now())
			rj.Status.Tasks = append(rj.Status.Tasks, execution.TaskRef{
				Name: rj.Name + "-gezdqo-0", CreationTimestamp: now, RunningTimestamp: &now, FinishTimestamp: &now,
				Status:        execution.TaskStatus{State: execution.TaskTerminated, Result: execution.TaskSucceeded},
				DeletedStatus: &execution.TaskStatus{State: execution.TaskTerminated, Result: execution.TaskSucceeded},
			})
			rj.Status.CreatedTasks = 1
			rj.Status = w.jobctlStatus(rj).Status
		})
	default:
		panic("unknown env action " + action)
	}
}

func (w *queueWorld) deadlines() []time.Time {
	var out []time.Time
	for _, rj := range w.jobs() {
		if sp := rj.Spec.StartPolicy; sp != nil && sp.StartAfter != nil && jobutil.IsQueued(rj) {
			out = append(out, sp.StartAfter.Time)
			// ... and an instant shortly before it, off the whole second: a sync caused by anything else
			// (a sibling Job's event) may run then and must still find the Job not due.
			out = append(out, sp.StartAfter.Add(-400*time.Millisecond))
		}
	}
	return out
}

func (w *queueWorld) outcome() string {
	var parts []string
	for _, rj := range w.jobs() {
		parts = append(parts, fmt.Sprintf("%s:%s:%v", rj.Name, rj.Status.Phase, !rj.Status.StartTime.IsZero()))
	}
	return strings.Join(parts, " ") + fmt.Sprintf(" store=%d", w.storeCount())
}

// ---- monitors ----

func (w *queueWorld) features() []string { return w.Features() }

func policyOf(rj *execution.Job) execution.ConcurrencyPolicy {
	if sp := rj.Spec.StartPolicy; sp != nil {
		return sp.ConcurrencyPolicy
	}
	return ""
}

func ownedByConfig(rj *execution.Job) (string, bool) {
	uid, ok := rj.Labels[jobconfig.LabelKeyJobConfigUID]
	return uid, ok
}

// activeCount counts started, non-terminal Jobs of the JobConfig in the authoritative API state.
func (w *queueWorld) activeCount(uid string, except string) int64 {
	var n int64
	for _, rj := range w.jobs() {
		if u, ok := ownedByConfig(rj); ok && u == uid && rj.Name != except && jobutil.IsActive(rj) {
			n++
		}
	}
	return n
}

// knowableActiveCount is the size of the union of Jobs active in the API and Jobs active in the cache.
func (w *queueWorld) knowableActiveCount(uid string, except string) int64 {
	names := map[string]bool{}
	for _, rj := range w.jobs() {
		if u, ok := ownedByConfig(rj); ok && u == uid && rj.Name != except && jobutil.IsActive(rj) {
			names[rj.Name] = true
		}
	}
	for _, o := range w.Ctx.Set.Jobs.GetIndexer().List() {
		rj := o.(*execution.Job)
		if u, ok := ownedByConfig(rj); ok && u == uid && rj.Name != except && jobutil.IsActive(rj) {
			names[rj.Name] = true
		}
	}
	return int64(len(names))
}

// cachedActiveCount counts active Jobs as delivered to the controller's cache.
func (w *queueWorld) cachedActiveCount(uid string, except string) int64 {
	var n int64
	for _, o := range w.Ctx.Set.Jobs.GetIndexer().List() {
		rj := o.(*execution.Job)
		if u, ok := ownedByConfig(rj); ok && u == uid && rj.Name != except && jobutil.IsActive(rj) {
			n++
		}
	}
	return n
}

func (w *queueWorld) cachedJob(name string) *execution.Job {
	o, ok, _ := w.Ctx.Set.Jobs.GetIndexer().GetByKey("default/" + name)
	if !ok {
		return nil
	}
	return o.(*execution.Job)
}

func due(rj *execution.Job, now time.Time) bool {
	if sp := rj.Spec.StartPolicy; sp != nil && sp.StartAfter != nil {
		return !sp.StartAfter.After(now)
	}
	return true
}

func (w *queueWorld) onWrite(wr sim.Write) {
	if wr.Resource != sim.Jobs || wr.Verb != "update" {
		return
	}
	old, new := wr.Old.(*execution.Job), wr.New.(*execution.Job)
	now := w.Now()
	// admission error annotation written by the queue controller
	if _, had := jobutil.GetAdmissionErrorMessage(old); !had {
		if _, has := jobutil.GetAdmissionErrorMessage(new); has && wr.Actor == "ctrl" {
			w.Count("C06.reject")
			w.mem.Rejected[new.Name] = true
			if sp := new.Spec.StartPolicy; sp != nil && sp.StartAfter != nil && now.Before(sp.StartAfter.Time) {
				// A Job that is not due yet waits; whether it may run is decided when its time has come.
				w.Violate("C07", "refused-before-start-after", fmt.Sprintf("job %s refused at +%.0fs although its startAfter (+%.0fs) has not come yet: nothing can start it any more", new.Name, w.Offset(), sp.StartAfter.Sub(sim.Epoch).Seconds()), w.features()...)
				w.Violate("C06", "refused-before-start-after", fmt.Sprintf("Forbid job %s refused before its startAfter: the limit has to be judged when the Job is due", new.Name), w.features()...)
			}
			if p := policyOf(new); p != execution.ConcurrencyPolicyForbid {
				w.Violate("C06", "non-forbid-rejected", fmt.Sprintf("job %s with policy %q was refused", new.Name, p), w.features()...)
			}
			if uid, ok := ownedByConfig(new); ok {
				// knowable active Jobs: active in the API (the controller's own starts included) or still
				// active in its cache (a finish event in flight cannot be known)
				if jc := w.jc(); jc != nil && w.knowableActiveCount(uid, new.Name) < jc.Spec.Concurrency.GetMaxConcurrency() {
					w.Violate("C06", "rejected-below-limit", fmt.Sprintf("Forbid job %s refused while only %d job(s) are active (max %d)", new.Name, w.activeCount(uid, new.Name), jc.Spec.Concurrency.GetMaxConcurrency()), w.features()...)
				}
			}
			if !old.Status.StartTime.IsZero() {
				w.Violate("C06", "rejected-after-start", "job "+new.Name+" was refused after it had been started", w.features()...)
			}
		}
	}
	// start write
	if old.Status.StartTime.IsZero() && !new.Status.StartTime.IsZero() {
		w.Count("C05.start-write")
		p := policyOf(new)
		if sp := new.Spec.StartPolicy; sp != nil && sp.StartAfter != nil && now.Before(sp.StartAfter.Time) {
			w.Violate("C07", "started-before-start-after", fmt.Sprintf("job %s started at +%.0fs, startAfter +%.0fs", new.Name, w.Offset(), sp.StartAfter.Sub(sim.Epoch).Seconds()), w.features()...)
		}
		if uid, ok := ownedByConfig(new); ok && (p == execution.ConcurrencyPolicyForbid || p == execution.ConcurrencyPolicyEnqueue) {
			jc := w.jc()
			if jc != nil {
				if n := w.activeCount(uid, new.Name); n >= jc.Spec.Concurrency.GetMaxConcurrency() {
					w.Violate("C05", "over-admission", fmt.Sprintf("%s job %s started while %d job(s) of the JobConfig are started and not finished (maxConcurrency %d)", p, new.Name, n, jc.Spec.Concurrency.GetMaxConcurrency()), w.features()...)
					if p == execution.ConcurrencyPolicyForbid {
						// the policy's own statement: at the limit a Forbid Job is refused, not started
						w.Violate("C06", "forbid-started-at-limit", fmt.Sprintf("Forbid job %s started although %d job(s) of the JobConfig are active (maxConcurrency %d): it must be refused", new.Name, n, jc.Spec.Concurrency.GetMaxConcurrency()), w.features()...)
					} else {
						w.Violate("C06", "enqueue-started-at-limit", fmt.Sprintf("Enqueue job %s started although %d job(s) of the JobConfig are active (maxConcurrency %d): it must wait", new.Name, n, jc.Spec.Concurrency.GetMaxConcurrency()), w.features()...)
					}
				}
			}
			if p == execution.ConcurrencyPolicyEnqueue {
				w.Count("C06.fifo")
				for _, other := range w.jobs() {
					ou, ok2 := ownedByConfig(other)
					if !ok2 || ou != uid || other.Name == new.Name || policyOf(other) != execution.ConcurrencyPolicyEnqueue {
						continue
					}
					if jobutil.IsQueued(other) && other.DeletionTimestamp == nil && due(other, now) && other.CreationTimestamp.Time.Before(new.CreationTimestamp.Time) {
						if c := w.cachedJob(other.Name); c != nil && jobutil.IsQueued(c) {
							w.Violate("C06", "fifo", fmt.Sprintf("Enqueue job %s (created +%.0fs) started while earlier job %s (created +%.0fs) is still queued and due", new.Name, new.CreationTimestamp.Sub(sim.Epoch).Seconds(), other.Name, other.CreationTimestamp.Sub(sim.Epoch).Seconds()), w.features()...)
						}
					}
				}
			}
		}
		if _, ae := jobutil.GetAdmissionErrorMessage(new); ae && new.Status.Phase.IsTerminal() {
			w.Violate("C06", "refused-job-started", "job "+new.Name+" is terminal AdmissionError and was started", w.features()...)
		}
	}
	if !old.Status.StartTime.IsZero() && !old.Status.StartTime.Equal(new.Status.StartTime) {
		w.Violate("C11", "start-time-changed", fmt.Sprintf("startTime %v -> %v", old.Status.StartTime, new.Status.StartTime), w.features()...)
	}
}

func (w *queueWorld) checkState(quiescent bool) {
	jc := w.jc()
	if jc == nil || len(w.Unsynced) > 0 {
		return // nothing is judged while the restarted process is still listing
	}
	uid := string(jc.UID)
	w.Count("C05.counter-invariant")
	if c := w.storeCount(); c < 0 {
		w.Violate("C05", "counter-negative", fmt.Sprintf("active counter is %d", c), w.features()...)
	}
	if !quiescent {
		return
	}
	w.Count("quiescent")
	now := w.Now()
	truth := w.activeCount(uid, "")
	if c := w.storeCount(); c != truth {
		w.Violate("C05", "counter-drift", fmt.Sprintf("system at rest: active counter %d but %d job(s) are started and not finished", c, truth), w.features()...)
	}
	max := jc.Spec.Concurrency.GetMaxConcurrency()
	future := w.HasFuture()
	for _, rj := range w.jobs() {
		if !jobutil.IsQueued(rj) || rj.DeletionTimestamp != nil {
			continue
		}
		if _, ae := jobutil.GetAdmissionErrorMessage(rj); ae {
			continue // terminal as soon as the job controller syncs (jc:sync is an env action)
		}
		if !due(rj, now) {
			// Blocked by time only: a timer must be armed no later than startAfter+1s.
			w.Count("C07.armed-timer")
			if !w.timerArmedFor(rj) {
				w.Violate("C07", "no-wakeup-armed", fmt.Sprintf("job %s waits for startAfter but no deferred sync is armed", rj.Name), w.features()...)
			}
			continue
		}
		_, owned := ownedByConfig(rj)
		p := policyOf(rj)
		switch {
		case !owned:
			w.Violate("C07", "independent-not-started", "independent job "+rj.Name+" is due, system at rest, not started", w.features()...)
		case p == execution.ConcurrencyPolicyAllow || p == "":
			w.Violate("C06", "allow-not-started", "Allow job "+rj.Name+" is due, system at rest, not started", w.features()...)
			w.Violate("C07", "due-job-not-started", "Allow job "+rj.Name+" is due, system at rest, not started", w.features()...)
		case p == execution.ConcurrencyPolicyEnqueue && truth < max:
			w.Violate("C06", "enqueue-stuck", fmt.Sprintf("Enqueue job %s is due, %d/%d active, system at rest, not started", rj.Name, truth, max), w.features()...)
			w.Violate("C07", "due-job-not-started", fmt.Sprintf("job %s is due and its concurrency policy allows it (%d/%d active), system at rest, not started", rj.Name, truth, max), w.features()...)
		case p == execution.ConcurrencyPolicyForbid:
			w.Violate("C06", "forbid-undecided", fmt.Sprintf("Forbid job %s is due, system at rest, neither started nor refused (%d/%d active)", rj.Name, truth, max), w.features()...)
		}
	}
	_ = future
}

func (w *queueWorld) timerArmedFor(rj *execution.Job) bool {
	limit := rj.Spec.StartPolicy.StartAfter.Add(time.Second)
	key := "default/" + rj.Name
	qn := "indq"
	if _, owned := ownedByConfig(rj); owned {
		key, qn = w.jcKey, "jcq"
	}
	q := w.Queues[qn]
	if due, ok := q.Delayed()[key]; ok && !due.After(limit) {
		return true
	}
	for _, k := range q.Ready() {
		if k == key {
			return true
		}
	}
	return false
}

// pointStores wraps the store registry so that the reconcilers see a store whose
// operations are preemption points.
type pointStores struct {
	controllercontext.Stores
	base *mc.Base
}

func (p pointStores) ActiveJobStore() (controllercontext.ActiveJobStore, error) {
	s, err := p.Stores.ActiveJobStore()
	if err != nil {
		return nil, err
	}
	return pointStore{s, p.base}, nil
}

type pointStore struct {
	real controllercontext.ActiveJobStore
	base *mc.Base
}

func (p pointStore) CountActiveJobsForConfig(rjc *execution.JobConfig) int64 {
	p.base.Point()
	return p.real.CountActiveJobsForConfig(rjc)
}

func (p pointStore) CheckAndAdd(rjc *execution.JobConfig, oldCount int64) bool {
	p.base.Point()
	return p.real.CheckAndAdd(rjc, oldCount)
}

func (p pointStore) Delete(rjc *execution.JobConfig) {
	p.base.Point()
	p.real.Delete(rjc)
}
