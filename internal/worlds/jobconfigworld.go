package worlds

import (
	"encoding/json"
	"fmt"
	"sort"
	"strings"
	"time"

	metav1 "k8s.io/apimachinery/pkg/apis/meta/v1"
	"k8s.io/apimachinery/pkg/runtime"
	"k8s.io/client-go/tools/record"

	configv1alpha1 "github.com/furiko-io/furiko/apis/config/v1alpha1"
	execution "github.com/furiko-io/furiko/apis/execution/v1alpha1"
	"github.com/furiko-io/furiko/pkg/execution/controllers/jobconfigcontroller"
	"github.com/furiko-io/furiko/pkg/execution/controllers/jobcontroller"
	jobutil "github.com/furiko-io/furiko/pkg/execution/util/job"
	"github.com/furiko-io/furiko/pkg/execution/util/jobconfig"
	"github.com/furiko-io/furiko/pkg/runtime/reconciler"

	"verif/internal/mc"
	"verif/internal/sim"
)

// JobConfigScenario parameterises the jobconfig-controller world (C15).
type JobConfigScenario struct {
	Name     string    `json:"name"`
	Schedule string    `json:"schedule"` // none | enabled | disabled
	MaxJobs  int       `json:"maxJobs"`  // Jobs the environment may create
	Kinds    []string  `json:"kinds"`    // scheduled | adhoc
	Delete   bool      `json:"delete"`   // Jobs may be deleted (TTL clean-up / user)
	Budget   mc.Budget `json:"budget"`
	// Tombstones: deletions are only noticed by a relist (handlers get DeletedFinalStateUnknown).
	Tombstones bool `json:"tombstones,omitempty"`
	// ColdStart: after a restart the JobConfig and Job informers list one after the other (DESIGN.md 10.9).
	ColdStart bool `json:"coldStart,omitempty"`
	Preexist  int  `json:"preexist"` // Jobs (started) existing before the controller starts
}

type jcMem struct {
	Created      int   `json:"created"`
	MaxSchedule  int64 `json:"maxSchedule"`  // unix of the latest schedule time of any Job ever created
	MaxStart     int64 `json:"maxStart"`     // unix of the latest start time of any Job ever
	SeenSchedule int64 `json:"seenSchedule"` // ... of any Job that was in the controller's cache during some sync
	SeenStart    int64 `json:"seenStart"`
}

type jobConfigWorld struct {
	*mc.Base
	scn JobConfigScenario
	mem jcMem
}

func init() {
	extraWorlds["jobconfig"] = func(raw json.RawMessage) mc.Factory {
		var p JobConfigScenario
		must(json.Unmarshal(raw, &p))
		return func() mc.World { return newJobConfigWorld(p) }
	}
}

func newJobConfigWorld(scn JobConfigScenario) *jobConfigWorld {
	w := &jobConfigWorld{scn: scn}
	b := mc.NewBase(map[configv1alpha1.ConfigName]runtime.Object{}, true)
	w.Base = b
	b.Budget = scn.Budget
	b.Tombstones = scn.Tombstones
	if scn.ColdStart {
		b.ColdStart, b.ColdResources, b.ResyncMode = true, []string{sim.JobConfigs, sim.Jobs}, true
	}
	b.API.OnWrite = w.onWrite
	b.Clock.SetTime(sim.Epoch.Add(time.Hour))
	jc := newJobConfig("jc1", execution.ConcurrencyPolicyAllow, 0)
	switch scn.Schedule {
	case "enabled":
		jc.Spec.Schedule = &execution.ScheduleSpec{Cron: &execution.CronSchedule{Expression: "* * * * *"}}
	case "disabled":
		jc.Spec.Schedule = &execution.ScheduleSpec{Cron: &execution.CronSchedule{Expression: "* * * * *"}, Disabled: true}
	}
	if _, err := b.API.Create("env", sim.JobConfigs, jc); err != nil {
		panic(err)
	}
	for i := 0; i < scn.Preexist; i++ {
		w.createJob("scheduled")
		w.API.EnvMutate(sim.Jobs, fmt.Sprintf("default/j%d", w.mem.Created), func(o runtime.Object) { w.start(o.(*execution.Job)) })
	}
	b.Build = func(b *mc.Base) {
		ctx := jobconfigcontroller.NewContextWithRecorder(b.Ctx, &record.FakeRecorder{})
		q := b.AddQueue("jobconfig", nil)
		ctx.VerifSetQueue(q)
		jobconfigcontroller.NewInformerWorker(ctx)
		b.SetWorker("jobconfig", reconciler.NewController(jobconfigcontroller.NewReconciler(ctx, &configv1alpha1.Concurrency{Workers: 1}), q))
	}
	b.EnvEnabled = w.envEnabled
	b.EnvApply = w.envApply
	b.ExtraKey = func() interface{} { return w.mem }
	b.CheckState = w.checkState
	b.AfterStep = w.afterStep
	b.OutcomeFn = func() string {
		jc := w.jc()
		if jc == nil {
			return "gone"
		}
		return fmt.Sprintf("%s a=%d q=%d", jc.Status.State, jc.Status.Active, jc.Status.Queued)
	}
	b.Snap.CanSnapshot = true
	b.Snap.SnapExtra = func() interface{} { return w.mem }
	b.Snap.RestoreExtra = func(x interface{}) { w.mem = x.(jcMem) }
	b.Start()
	return w
}

func (w *jobConfigWorld) jc() *execution.JobConfig { return w.API.JobConfig("default/jc1") }

func (w *jobConfigWorld) jobs() []*execution.Job {
	var out []*execution.Job
	for _, o := range w.API.List(sim.Jobs) {
		out = append(out, o.(*execution.Job))
	}
	return out
}

func (w *jobConfigWorld) createJob(kind string) {
	w.mem.Created++
	// Every new Job gets a later schedule time than its predecessors.
	t := sim.Epoch.Add(time.Duration(w.mem.Created) * time.Minute)
	typ := execution.JobTypeAdhoc
	if kind == "scheduled" {
		typ = execution.JobTypeScheduled
	}
	rj, err := jobconfig.NewJobFromJobConfig(w.jc(), typ, t)
	if err != nil {
		panic(err)
	}
	rj.TypeMeta = metav1.TypeMeta{APIVersion: "execution.furiko.io/v1alpha1", Kind: "Job"}
	rj.Name = fmt.Sprintf("j%d", w.mem.Created)
	rj.Spec.StartPolicy = &execution.StartPolicySpec{ConcurrencyPolicy: execution.ConcurrencyPolicyAllow}
	if _, err := w.API.Create("env", sim.Jobs, rj); err != nil {
		panic(err)
	}
	if kind == "scheduled" && t.Unix() > w.mem.MaxSchedule {
		w.mem.MaxSchedule = t.Unix()
	}
}

func (w *jobConfigWorld) start(rj *execution.Job) {
	// Start times differ per Job and increase with the Job number.
	var n int
	fmt.Sscanf(rj.Name, "j%d", &n)
	t := metav1.NewTime(w.Now().Add(time.Duration(n) * time.Second))
	rj.Status.StartTime = &t
	st, err := jobcontroller.UpdateJobStatusFromTaskRefs(rj)
	if err != nil {
		panic(err)
	}
	rj.Status = st.Status
	if t.Unix() > w.mem.MaxStart {
		w.mem.MaxStart = t.Unix()
	}
}

func (w *jobConfigWorld) envEnabled() []string {
	var out []string
	if w.mem.Created < w.scn.MaxJobs+w.scn.Preexist {
		for _, k := range w.scn.Kinds {
			out = append(out, "u:create:"+k)
		}
	}
	for _, rj := range w.jobs() {
		switch {
		case jobutil.IsQueued(rj):
			out = append(out, "q:start:"+rj.Name)
		case jobutil.IsActive(rj):
			out = append(out, "jc:finish:"+rj.Name)
		}
		if w.scn.Delete {
			out = append(out, "u:purge:"+rj.Name)
		}
	}
	return out
}

func (w *jobConfigWorld) envApply(action string) {
	parts := strings.SplitN(action, ":", 3)
	key := "default/" + parts[2]
	switch parts[0] + ":" + parts[1] {
	case "u:create":
		w.createJob(parts[2])
	case "q:start":
		w.API.EnvMutate(sim.Jobs, key, func(o runtime.Object) { w.start(o.(*execution.Job)) })
	case "jc:finish":
		w.API.EnvMutate(sim.Jobs, key, func(o runtime.Object) {
			rj := o.(*execution.Job)
			now := metav1.NewTime(w.Now())
			rj.Status.Tasks = append(rj.Status.Tasks, execution.TaskRef{Name: rj.Name + "-gezdqo-0", CreationTimestamp: now, RunningTimestamp: &now, FinishTimestamp: &now,
				Status: execution.TaskStatus{State: execution.TaskTerminated, Result: execution.TaskSucceeded}, DeletedStatus: &execution.TaskStatus{State: execution.TaskTerminated, Result: execution.TaskSucceeded}})
			rj.Status.CreatedTasks = 1
			st, err := jobcontroller.UpdateJobStatusFromTaskRefs(rj)
			if err != nil {
				panic(err)
			}
			rj.Status = st.Status
		})
	case "u:purge":
		w.API.EnvRemove(sim.Jobs, key)
	default:
		panic("unknown env action " + action)
	}
}

// afterStep records which Jobs were visible to the controller during a sync.
func (w *jobConfigWorld) afterStep(action string) {
	if !strings.HasPrefix(action, "work:") {
		return
	}
	// Only syncs whose status write (if any) took effect count: a failed write cannot record anything.
	for _, c := range w.Calls() {
		if c.Outcome != "ok" && c.Outcome != "fault:timeout" {
			return
		}
	}
	if w.API.Crashed() {
		return
	}
	for _, o := range w.Ctx.Set.Jobs.GetIndexer().List() {
		rj := o.(*execution.Job)
		if t := jobconfig.GetLabelScheduleTime(rj); t != nil && t.Unix() > w.mem.SeenSchedule {
			w.mem.SeenSchedule = t.Unix()
		}
		if rj.Status.StartTime != nil && rj.Status.StartTime.Unix() > w.mem.SeenStart {
			w.mem.SeenStart = rj.Status.StartTime.Unix()
		}
	}
}

func unixOf(t *metav1.Time) int64 {
	if t == nil || t.IsZero() {
		return 0
	}
	return t.Unix()
}

func (w *jobConfigWorld) onWrite(wr sim.Write) {
	if wr.Resource != sim.JobConfigs || wr.Verb != "update" {
		return
	}
	old, new := wr.Old.(*execution.JobConfig), wr.New.(*execution.JobConfig)
	w.Count("C15.status-write")
	if unixOf(new.Status.LastScheduled) < unixOf(old.Status.LastScheduled) {
		w.Violate("C15", "last-scheduled-backwards", fmt.Sprintf("lastScheduled %v -> %v", old.Status.LastScheduled, new.Status.LastScheduled), w.Features()...)
	}
	if unixOf(new.Status.LastExecuted) < unixOf(old.Status.LastExecuted) {
		w.Violate("C15", "last-executed-backwards", fmt.Sprintf("lastExecuted %v -> %v", old.Status.LastExecuted, new.Status.LastExecuted), w.Features()...)
	}
}

func refNames(refs []execution.JobReference) []string {
	var out []string
	for _, r := range refs {
		out = append(out, r.Name)
	}
	sort.Strings(out)
	return out
}

func (w *jobConfigWorld) checkState(quiescent bool) {
	if !quiescent {
		return
	}
	jc := w.jc()
	if jc == nil {
		return
	}
	w.Count("quiescent")
	var active, queued []string
	for _, rj := range w.jobs() {
		if rj.Labels[jobconfig.LabelKeyJobConfigUID] != string(jc.UID) {
			continue
		}
		if jobutil.IsActive(rj) {
			active = append(active, rj.Name)
		}
		if jobutil.IsQueued(rj) {
			queued = append(queued, rj.Name)
		}
	}
	sort.Strings(active)
	sort.Strings(queued)
	f := w.Features()
	if got := refNames(jc.Status.ActiveJobs); fmt.Sprint(got) != fmt.Sprint(active) || jc.Status.Active != int64(len(active)) {
		w.Violate("C15", "active-jobs", fmt.Sprintf("at rest: status.activeJobs=%v active=%d, truly active %v", got, jc.Status.Active, active), f...)
	}
	if got := refNames(jc.Status.QueuedJobs); fmt.Sprint(got) != fmt.Sprint(queued) || jc.Status.Queued != int64(len(queued)) {
		w.Violate("C15", "queued-jobs", fmt.Sprintf("at rest: status.queuedJobs=%v queued=%d, truly queued %v", got, jc.Status.Queued, queued), f...)
	}
	want := execution.JobConfigReady
	switch {
	case len(active) > 0:
		want = execution.JobConfigExecuting
	case len(queued) > 0:
		want = execution.JobConfigJobQueued
	case w.scn.Schedule == "enabled":
		want = execution.JobConfigReadyEnabled
	case w.scn.Schedule == "disabled":
		want = execution.JobConfigReadyDisabled
	}
	if jc.Status.State != want {
		w.Violate("C15", "state", fmt.Sprintf("at rest: state %q, expected %q (active %v queued %v)", jc.Status.State, want, active, queued), f...)
	}
	// lastScheduled / lastExecuted are at least the latest schedule / start time of any Job the
	// controller had in its cache at some sync, even after those Jobs are deleted.
	if unixOf(jc.Status.LastScheduled) < w.mem.SeenSchedule {
		w.Violate("C15", "last-scheduled-low", fmt.Sprintf("at rest: lastScheduled %v is before the schedule time %d of a Job the controller has seen", jc.Status.LastScheduled, w.mem.SeenSchedule), f...)
	}
	if unixOf(jc.Status.LastExecuted) < w.mem.SeenStart {
		w.Violate("C15", "last-executed-low", fmt.Sprintf("at rest: lastExecuted %v is before the start time %d of a Job the controller has seen", jc.Status.LastExecuted, w.mem.SeenStart), f...)
	}
	// Strict reading (any Job ever created, even one deleted before any sync could see it) is not
	// achievable by any level-triggered controller; it is only counted, never reported.
	if unixOf(jc.Status.LastScheduled) < w.mem.MaxSchedule || unixOf(jc.Status.LastExecuted) < w.mem.MaxStart {
		w.Count("C15.strict-reading-miss(unseen job)")
	}
}
