package worlds

import (
	"encoding/json"
	"fmt"
	"strings"

	"verif/internal/mc"
)

// Scenario is one unit of exploration: pure data from which a world is built
// from scratch, deterministically.
type Scenario struct {
	ID        string          `json:"id"`
	World     string          `json:"world"`
	Params    json.RawMessage `json:"params"`
	MaxStates int             `json:"maxStates,omitempty"`
	MaxDepth  int             `json:"maxDepth,omitempty"`
	Livelock  bool            `json:"livelock,omitempty"`
}

// Factory returns the world factory of a scenario.
func Factory(s Scenario) mc.Factory {
	inner := factoryOf(s)
	prop := s.ID
	if i := strings.IndexByte(prop, '/'); i >= 0 {
		prop = prop[:i]
	}
	return func() mc.World {
		w := inner()
		if p, ok := w.(interface{ SetProperty(string) }); ok {
			p.SetProperty(prop) // generic monitors of the base world report under the property being checked
		}
		return w
	}
}

func factoryOf(s Scenario) mc.Factory {
	switch s.World {
	case "job":
		var p JobScenario
		must(json.Unmarshal(s.Params, &p))
		return NewJobWorld(p)
	}
	if f, ok := extraWorlds[s.World]; ok {
		return f(s.Params)
	}
	panic("unknown world " + s.World)
}

var extraWorlds = map[string]func(json.RawMessage) mc.Factory{}

func must(err error) {
	if err != nil {
		panic(err)
	}
}

func mk(world, id string, params interface{}) Scenario {
	raw, err := json.Marshal(params)
	must(err)
	return Scenario{ID: id, World: world, Params: raw}
}

// ScenariosFor returns the scenario list of a property and tier.
func ScenariosFor(prop, tier string) []Scenario {
	f, ok := scenarioTable[prop]
	if !ok {
		return nil
	}
	return f(tier == "thorough")
}

var scenarioTable = map[string]func(thorough bool) []Scenario{}

func register(prop string, f func(thorough bool) []Scenario) {
	if _, dup := scenarioTable[prop]; dup {
		panic(fmt.Sprintf("duplicate scenario table for %s", prop))
	}
	scenarioTable[prop] = f
}

// RegisterWorld lets other packages add world kinds.
func RegisterWorld(kind string, f func(json.RawMessage) mc.Factory) { extraWorlds[kind] = f }

// RegisterScenarios lets other packages add the scenario table of a property.
func RegisterScenarios(prop string, f func(thorough bool) []Scenario) { register(prop, f) }

// Mk builds a scenario from a parameter struct.
func Mk(world, id string, params interface{}) Scenario { return mk(world, id, params) }
