package cronmc

import (
	"encoding/json"
	"fmt"
	"strings"
	"time"

	"k8s.io/apimachinery/pkg/runtime"

	execution "github.com/furiko-io/furiko/apis/execution/v1alpha1"

	"verif/internal/mc"
	"verif/internal/sim"
	"verif/internal/worlds"
)

// LifeScenario parameterises the JobConfig life-cycle world (C03).
type LifeScenario struct {
	Name      string   `json:"name"`
	Initial   bool     `json:"initial"` // JobConfig "a" exists (with E1) before the controller starts
	E1        string   `json:"e1"`
	E2        string   `json:"e2"`
	Events    []string `json:"events"` // menu: create, setexpr, disable, enable, notbefore, dropschedule, delete, recreate, touch
	MaxEvents int      `json:"maxEvents"`
	Ticks     []int    `json:"ticks"` // tick menu in milliseconds
	HorizonS  int      `json:"horizonS"`
	Lag       int      `json:"lag"`
	Static    bool     `json:"static"`          // a second, never-changing JobConfig "s" shares the scheduler
	Names     []string `json:"names,omitempty"` // life-cycled JobConfigs (default: a)
}

type lifeJC struct {
	Delivered string `json:"delivered"` // JSON of the delivered schedule spec ("" = absent)
	ChangedAt int64  `json:"changedAt"` // ms offset when the last schedule-relevant change was delivered
	Dirty     bool   `json:"dirty"`     // a change was delivered since the last tick
	CursorMs  int64  `json:"cursorMs"`  // reference cursor
	Known     bool   `json:"known"`     // reference considers it scheduled (delivered, enabled cron)
}

type lifeMem struct {
	Events  int                `json:"events"`
	Used    string             `json:"used"`
	JC      map[string]*lifeJC `json:"jc"`
	CursorS int64              `json:"cursorS"` // reference cursor of static "s"
}

type lifeWorld struct {
	*Harness
	scn LifeScenario
	mem lifeMem
}

func init() {
	worlds.RegisterWorld("cronlife", func(raw json.RawMessage) mc.Factory {
		var s LifeScenario
		if err := json.Unmarshal(raw, &s); err != nil {
			panic(err)
		}
		return func() mc.World { return newLifeWorld(s) }
	})
}

func (s LifeScenario) names() []string {
	if len(s.Names) == 0 {
		return []string{"a"}
	}
	return s.Names
}

func newLifeWorld(s LifeScenario) *lifeWorld {
	p := Pop{Name: s.Name, K: 5}
	if s.Initial {
		for _, n := range s.names() {
			p.JCs = append(p.JCs, JC{Name: n, Exprs: []string{s.E1}})
		}
	}
	if s.Static {
		p.JCs = append(p.JCs, JC{Name: "s", Exprs: []string{"*/4 * * * * * *"}})
	}
	w := &lifeWorld{scn: s}
	w.Harness = NewHarness(p, false)
	if w.InitErr != nil {
		panic(w.InitErr)
	}
	w.Budget = mc.Budget{Lag: s.Lag}
	w.mem.JC = map[string]*lifeJC{}
	for _, n := range s.names() {
		st := &lifeJC{}
		if s.Initial {
			st.Delivered = w.deliveredSpec(n)
			st.Known = true
		}
		w.mem.JC[n] = st
	}
	w.EnvEnabled = w.envEnabled
	w.EnvApply = w.envApply
	w.ExtraKey = func() interface{} {
		d := w.Worker.VerifSchedule().VerifDump()
		return map[string]interface{}{"mem": w.mem, "heap": d.Queue, "chan": w.CronCtx.VerifUpdatedConfigsLen()}
	}
	w.AfterStep = w.afterStep
	return w
}

func (w *lifeWorld) IsSystem(a string) bool { return strings.HasPrefix(a, "deliver:") }

func (w *lifeWorld) jc(name string) *execution.JobConfig { return w.API.JobConfig("default/" + name) }

func (w *lifeWorld) cached(name string) *execution.JobConfig {
	o, ok, _ := w.Ctx.Set.JobConfigs.GetIndexer().GetByKey("default/" + name)
	if !ok {
		return nil
	}
	return o.(*execution.JobConfig)
}

// deliveredSpec is the schedule-relevant part of the cached JobConfig.
func (w *lifeWorld) deliveredSpec(name string) string {
	c := w.cached(name)
	if c == nil {
		return ""
	}
	type view struct {
		UID      string
		Schedule *execution.ScheduleSpec
	}
	v := view{UID: string(c.UID)}
	if c.Spec.Schedule != nil {
		s := c.Spec.Schedule.DeepCopy()
		s.LastUpdated = nil
		v.Schedule = s
	}
	b, _ := json.Marshal(v)
	return string(b)
}

func (w *lifeWorld) envEnabled() []string {
	var out []string
	s := w.scn
	nowS := int(w.Now().Sub(sim.Epoch).Seconds())
	if w.mem.Events < s.MaxEvents {
		for _, name := range s.names() {
			jc := w.jc(name)
			for _, ev := range s.Events {
				ok := false
				tag := ev + ":" + name
				switch ev {
				case "create":
					ok = jc == nil && !strings.Contains(w.mem.Used, "create:"+name)
				case "recreate":
					ok = jc == nil && strings.Contains(w.mem.Used, "delete:"+name)
				case "delete":
					ok = jc != nil
				case "setexpr":
					ok = jc != nil && jc.Spec.Schedule != nil && jc.Spec.Schedule.Cron != nil && jc.Spec.Schedule.Cron.Expression == s.E1
				case "disable":
					ok = jc != nil && jc.Spec.Schedule != nil && !jc.Spec.Schedule.Disabled
				case "enable":
					ok = jc != nil && jc.Spec.Schedule != nil && jc.Spec.Schedule.Disabled
				case "notbefore":
					ok = jc != nil && jc.Spec.Schedule != nil && jc.Spec.Schedule.Constraints == nil
				case "dropschedule":
					ok = jc != nil && jc.Spec.Schedule != nil
				case "touch":
					ok = jc != nil && !strings.Contains(w.mem.Used, "touch:"+name)
				}
				if ok {
					out = append(out, "u:"+tag)
				}
			}
		}
	}
	if nowS < s.HorizonS && w.Ctx.Set.PendingTotal() <= s.Lag {
		for _, ms := range s.Ticks {
			out = append(out, fmt.Sprintf("tick:%d", ms))
		}
	}
	return out
}

func (w *lifeWorld) update(name string, fn func(jc *execution.JobConfig)) {
	jc := w.jc(name).DeepCopy()
	fn(jc)
	jc.ResourceVersion = ""
	if _, err := w.API.Update("env", sim.JobConfigs, "", jc); err != nil {
		panic(fmt.Sprintf("user update rejected: %v", err))
	}
}

func (w *lifeWorld) envApply(action string) {
	if strings.HasPrefix(action, "tick:") {
		var ms int
		fmt.Sscanf(action, "tick:%d", &ms)
		got := w.Tick(time.Duration(ms) * time.Millisecond)
		w.judgeTick(got)
		return
	}
	w.mem.Events++
	tag := strings.TrimPrefix(action, "u:")
	w.mem.Used += tag + ","
	ev, name, _ := strings.Cut(tag, ":")
	switch ev {
	case "create", "recreate":
		e := w.scn.E1
		if ev == "recreate" {
			e = w.scn.E2
		}
		if _, err := w.API.Create("env", sim.JobConfigs, JC{Name: name, Exprs: []string{e}}.Object(w.T0)); err != nil {
			panic(err)
		}
	case "delete":
		if err := w.API.Delete("env", sim.JobConfigs, "default/"+name, -1); err != nil {
			panic(err)
		}
	case "setexpr":
		w.update(name, func(jc *execution.JobConfig) { jc.Spec.Schedule.Cron.Expression = w.scn.E2 })
	case "disable":
		w.update(name, func(jc *execution.JobConfig) { jc.Spec.Schedule.Disabled = true })
	case "enable":
		w.update(name, func(jc *execution.JobConfig) { jc.Spec.Schedule.Disabled = false })
	case "notbefore":
		nb := JC{NotBefore: ip(int(w.Now().Sub(w.T0).Seconds()) + 7)}
		w.update(name, func(jc *execution.JobConfig) {
			jc.Spec.Schedule.Constraints = &execution.ScheduleContraints{NotBefore: at(w.T0, nb.NotBefore)}
		})
	case "dropschedule":
		w.update(name, func(jc *execution.JobConfig) { jc.Spec.Schedule = nil })
	case "touch":
		// A change that is not a schedule change (a label and a spec field outside the schedule):
		// must not re-base anything, and must not make a pending schedule change get lost.
		w.update(name, func(jc *execution.JobConfig) {
			if jc.Labels == nil {
				jc.Labels = map[string]string{}
			}
			jc.Labels["touched"] = "yes"
			jc.Spec.Concurrency.Policy = execution.ConcurrencyPolicyForbid
		})
	default:
		panic("unknown event " + action)
	}
}

// afterStep tracks what has been delivered to the controller's cache.
func (w *lifeWorld) afterStep(action string) {
	if action != "deliver:jobconfigs" {
		return
	}
	for _, name := range w.scn.names() {
		st := w.mem.JC[name]
		now := w.deliveredSpec(name)
		if now != st.Delivered {
			st.Delivered = now
			st.ChangedAt = w.Now().Sub(sim.Epoch).Milliseconds()
			st.Dirty = true
		}
	}
}

func (w *lifeWorld) refFor(name string) *refJC {
	c := w.cached(name)
	if c == nil || c.Spec.Schedule == nil || c.Spec.Schedule.Cron == nil {
		return nil
	}
	s := c.Spec.Schedule
	j := JC{Name: name, Exprs: s.Cron.GetExpressions(), TZ: s.Cron.Timezone, Disabled: s.Disabled}
	r := newRefJC(j, w.Pop, w.T0)
	if s.Constraints != nil {
		if s.Constraints.NotBefore != nil {
			r.notBefore = s.Constraints.NotBefore.Time
		}
		if s.Constraints.NotAfter != nil {
			r.notAfter = s.Constraints.NotAfter.Time
		}
	}
	return r
}

// everEmitted reports whether the current incarnation of "a" was ever requested.
func (w *lifeWorld) everEmitted(name string) bool {
	for _, e := range w.Out {
		if e.JC == name && e.T.After(msTime(w.mem.JC[name].ChangedAt)) {
			return true
		}
	}
	return false
}

func msTime(ms int64) time.Time { return sim.Epoch.Add(time.Duration(ms) * time.Millisecond) }

func (w *lifeWorld) judgeTick(got []Emission) {
	now := w.Now()
	per := map[string][]time.Time{}
	for _, e := range got {
		if e.T.After(now) {
			w.Violate("C03", "early", fmt.Sprintf("%s requested for %s before that time (now %s)", e.JC, rel(e.T), rel(now)))
		}
		per[e.JC] = append(per[e.JC], e.T)
	}
	w.Count("C03.tick")
	// Static JobConfig: exact reference stream, unaffected by anything that happens to the others.
	if w.scn.Static {
		s := per["s"]
		rs := newRefJC(JC{Name: "s", Exprs: []string{"*/4 * * * * * *"}}, w.Pop, w.T0)
		want := rs.dueIn(msTime(w.mem.CursorS), now, 100)
		if fmt.Sprint(rels(want)) != fmt.Sprint(rels(s)) {
			w.Violate("C03", "bystander-disturbed", fmt.Sprintf("tick at %s: unchanged JobConfig s expected %v, got %v", rel(now), rels(want), rels(s)))
		}
		if len(want) > 0 {
			w.mem.CursorS = want[len(want)-1].Sub(sim.Epoch).Milliseconds()
		}
	}
	for _, name := range w.scn.names() {
		w.judgeOne(name, per[name], now)
	}
}

func (w *lifeWorld) judgeOne(name string, a []time.Time, now time.Time) {
	st := w.mem.JC[name]
	r := w.refFor(name)
	changeT := msTime(st.ChangedAt)
	desc := fmt.Sprintf("tick at %s, %s delivered spec %s (changed at %s)", rel(now), name, st.Delivered, rel(changeT))
	switch {
	case r == nil || !r.enabled:
		// Not scheduled according to what has been delivered: nothing may be requested
		// by a tick that runs after the change was delivered.
		if len(a) > 0 {
			w.Violate("C03", "fired-while-unscheduled", fmt.Sprintf("%s: requested %v although the JobConfig is deleted, disabled or has no cron schedule", desc, rels(a)))
		}
		st.Known = false
	case st.Dirty || !st.Known:
		// First tick after a delivered change (or after creation): only times of the
		// new schedule after the change are allowed; times between the change and this
		// tick may be skipped (the schedule is re-based at the tick).
		w.Count("C03.rebased")
		allowed := map[int64]bool{}
		for _, t := range r.dueIn(changeT, now, 1000) {
			allowed[t.Unix()] = true
		}
		for _, t := range a {
			if !allowed[t.Unix()] {
				w.Violate("C03", "back-dated-or-off-schedule", fmt.Sprintf("%s: requested %s which is not a time of the new schedule after the change", desc, rel(t)))
			}
		}
		st.CursorMs = now.Sub(sim.Epoch).Milliseconds()
		st.Known = true
	default:
		w.Count("C03.steady")
		want := r.dueIn(msTime(st.CursorMs), now, 1000)
		if fmt.Sprint(rels(want)) != fmt.Sprint(rels(a)) {
			monitor := "stream-after-change"
			switch {
			case len(a) == 0 && !w.everEmitted(name):
				monitor = "never-scheduled-after-create-or-enable"
			case len(want) == 0 && !r.notBefore.IsZero() && a[0].Before(r.notBefore):
				monitor = "fired-before-notbefore"
			}
			w.Violate("C03", monitor, fmt.Sprintf("%s: expected %v, got %v", desc, rels(want), rels(a)))
		}
		if len(want) > 0 {
			st.CursorMs = want[len(want)-1].Sub(sim.Epoch).Milliseconds()
		}
	}
	st.Dirty = false
}

var _ runtime.Object = (*execution.JobConfig)(nil)

func init() {
	worlds.RegisterScenarios("C03", func(thorough bool) []worlds.Scenario {
		var out []worlds.Scenario
		add := func(s LifeScenario) { out = append(out, worlds.Mk("cronlife", "C03/"+s.Name, s)) }
		ticks := []int{1000, 5000}
		all := []string{"setexpr", "disable", "enable", "notbefore", "dropschedule", "delete", "recreate", "touch"}
		// Existing JobConfig: every pair (quick) / triple (thorough) of life-cycle events,
		// in every order and interleaving with deliveries and ticks.
		n := 2
		if thorough {
			n = 3
		}
		var rec func(start int, chosen []string)
		rec = func(start int, chosen []string) {
			if len(chosen) == n {
				name := "existing-" + strings.Join(chosen, "+")
				add(LifeScenario{Name: name, Initial: true, E1: "*/3 * * * * * *", E2: "*/5 * * * * * *", Events: append([]string(nil), chosen...), MaxEvents: n, Ticks: ticks, HorizonS: 12, Static: true})
				return
			}
			for i := start; i < len(all); i++ {
				rec(i+1, append(chosen, all[i]))
			}
		}
		rec(0, nil)
		for _, other := range []string{"setexpr", "disable", "delete", "notbefore", "touch"} {
			evs := []string{"create", other}
			max := 2
			if other == "disable" {
				evs = append(evs, "enable")
				max = 3
			}
			if other == "delete" {
				evs = append(evs, "recreate")
				max = 3
			}
			add(LifeScenario{Name: "created-after-start+" + other, Initial: false, E1: "*/3 * * * * * *", E2: "*/2 * * * * * *", Events: evs, MaxEvents: max, Ticks: ticks, HorizonS: 12, Static: true})
		}
		for _, pair := range [][]string{{"setexpr", "delete"}, {"disable", "enable"}, {"delete", "recreate"}, {"setexpr", "notbefore"}} {
			add(LifeScenario{Name: "lag1-" + strings.Join(pair, "+"), Initial: true, E1: "*/3 * * * * * *", E2: "*/5 * * * * * *", Events: pair, MaxEvents: 2, Ticks: []int{1000, 5000}, HorizonS: 10, Lag: 1, Static: true})
			add(LifeScenario{Name: "overdue-" + strings.Join(pair, "+"), Initial: true, E1: "*/2 * * * * * *", E2: "*/7 * * * * * *", Events: pair, MaxEvents: 2, Ticks: []int{1000, 1500, 5000}, HorizonS: 9})
		}
		// Two life-cycled JobConfigs: a change of one arriving together with a change of the other.
		for _, pair := range [][]string{{"delete", "disable"}, {"delete", "setexpr"}, {"delete", "enable", "disable"}, {"setexpr", "disable"}, {"dropschedule", "setexpr"}} {
			add(LifeScenario{Name: "two-configs-" + strings.Join(pair, "+"), Names: []string{"a", "b"}, Initial: true, E1: "*/3 * * * * * *", E2: "*/5 * * * * * *", Events: pair, MaxEvents: 2, Ticks: []int{1000, 5000}, HorizonS: 9})
		}
		add(LifeScenario{Name: "minute-granular", Initial: true, E1: "* * * * *", E2: "*/2 * * * *", Events: []string{"setexpr", "disable", "enable", "delete", "recreate", "notbefore"}, MaxEvents: 2, Ticks: []int{61000, 30000}, HorizonS: 200})
		return out
	})
}
