package cronmc

import (
	"fmt"
	"os"
	"sort"
	"time"

	"verif/internal/pure"
)

var tickMenu = []time.Duration{250 * time.Millisecond, time.Second, 1500 * time.Millisecond, 5 * time.Second, 61 * time.Second, 400 * time.Second}

func c01Populations() []Pop {
	var pops []Pop
	add := func(p Pop) {
		if p.K == 0 {
			p.K = 5
		}
		pops = append(pops, p)
	}
	add(Pop{Name: "sec-every2", JCs: []JC{{Name: "a", Exprs: []string{"*/2 * * * * * *"}}}})
	add(Pop{Name: "sec-every2-k1", K: 1, JCs: []JC{{Name: "a", Exprs: []string{"*/2 * * * * * *"}}}})
	add(Pop{Name: "sec-every3-k3-sgt-start+500", K: 3, StartMs: 500, JCs: []JC{{Name: "a", Exprs: []string{"*/3 * * * * * *"}, TZ: "Asia/Singapore"}}})
	add(Pop{Name: "sec-0/15-start-500", StartMs: -500, JCs: []JC{{Name: "a", Exprs: []string{"0/15 * * * * * *"}}}})
	add(Pop{Name: "minutely-two", JCs: []JC{{Name: "a", Exprs: []string{"* * * * *"}}, {Name: "b", Exprs: []string{"*/2 * * * *"}, TZ: "UTC+05:30"}}})
	add(Pop{Name: "multi-expr-overlap", JCs: []JC{{Name: "a", Exprs: []string{"*/20 * * * * * *", "*/30 * * * * * *"}}}})
	add(Pop{Name: "timezones-hour-minute", JCs: []JC{
		{Name: "sgt", Exprs: []string{"5 8 * * *"}, TZ: "Asia/Singapore"},
		{Name: "ist", Exprs: []string{"35 5 * * *"}, TZ: "UTC+05:30"},
		{Name: "mst", Exprs: []string{"5 17 * * *"}, TZ: "GMT-7"},
		{Name: "nyc", Exprs: []string{"10 19 * * *"}, TZ: "America/New_York"},
		{Name: "def", Exprs: []string{"1 0 * * *"}},
	}})
	add(Pop{Name: "default-tz-from-config", DefaultTZ: "Asia/Singapore", JCs: []JC{{Name: "a", Exprs: []string{"5 8 * * *"}}, {Name: "b", Exprs: []string{"*/7 * * * * * *"}}}})
	add(Pop{Name: "hashed", JCs: []JC{{Name: "h1", Exprs: []string{"H/5 * * * *"}}, {Name: "h2", Exprs: []string{"H * * * * * *"}}, {Name: "h3", Exprs: []string{"H/10 * * * * * *"}}}})
	add(Pop{Name: "point-in-time-and-never", JCs: []JC{
		{Name: "once", Exprs: []string{"0 12 9 2 * 2061"}}, {Name: "never", Exprs: []string{"0 0 31 2 *"}},
		{Name: "soon", Exprs: []string{"7 0 1 1 * 2060"}}, {Name: "tick", Exprs: []string{"*/10 * * * * * *"}},
	}})
	add(Pop{Name: "windows", JCs: []JC{
		{Name: "nb-on-match", Exprs: []string{"*/5 * * * * * *"}, NotBefore: ip(10)},
		{Name: "nb-off-match", Exprs: []string{"*/5 * * * * * *"}, NotBefore: ip(12)},
		{Name: "na-on-match", Exprs: []string{"*/5 * * * * * *"}, NotAfter: ip(30)},
		{Name: "na-off-match", Exprs: []string{"*/5 * * * * * *"}, NotAfter: ip(33)},
		{Name: "both", Exprs: []string{"*/4 * * * * * *"}, NotBefore: ip(8), NotAfter: ip(80)},
	}})
	add(Pop{Name: "notbefore-future-with-timezones", JCs: []JC{
		{Name: "sgt", Exprs: []string{"5 8 * * *"}, TZ: "Asia/Singapore", NotBefore: ip(120)},
		{Name: "ist", Exprs: []string{"35 5 * * *"}, TZ: "UTC+05:30", NotBefore: ip(200), NotAfter: ip(100000)},
		{Name: "mst-after-first", Exprs: []string{"5 17 * * *"}, TZ: "GMT-7", NotBefore: ip(400)},
		{Name: "nyc-sec", Exprs: []string{"*/30 * 19 * * * *"}, TZ: "America/New_York", NotBefore: ip(45)},
	}})
	add(Pop{Name: "notbefore-default-tz-from-config", DefaultTZ: "Asia/Singapore", JCs: []JC{
		{Name: "a", Exprs: []string{"5 8 * * *"}, NotBefore: ip(61)}, {Name: "b", Exprs: []string{"0 9 * * *"}, NotBefore: ip(3000)}}})
	eight := Pop{Name: "population-8-same-tick", K: 3}
	for i, e := range []string{"*/2 * * * * * *", "*/2 * * * * * *", "*/3 * * * * * *", "*/5 * * * * * *", "* * * * *", "*/4 * * * * * *", "0/30 * * * * * *", "*/6 * * * * * *"} {
		eight.JCs = append(eight.JCs, JC{Name: fmt.Sprintf("j%d", i), Exprs: []string{e}})
	}
	add(eight)
	// The same name in two namespaces: two JobConfigs, each with its own missed-schedule budget.
	add(Pop{Name: "same-name-two-namespaces", JCs: []JC{
		{Name: "nightly", Exprs: []string{"* * * * *"}}, {Name: "nightly", NS: "team-b", Exprs: []string{"* * * * *"}},
		{Name: "other", NS: "team-b", Exprs: []string{"*/2 * * * *"}}}})
	// Several expressions of which one has no time left (a year that has passed), has none at all,
	// or runs out while the scheduler runs (400 s ticks pass 00:07): the others keep firing.
	add(Pop{Name: "multi-expr-one-exhausted", JCs: []JC{
		{Name: "last-past", Exprs: []string{"*/4 * * * * * *", "0 0 0 1 1 * 2020"}},
		{Name: "first-past", Exprs: []string{"0 0 1 1 * 2020", "*/6 * * * * * *"}},
		{Name: "middle-never", Exprs: []string{"*/9 * * * * * *", "0 0 31 2 *", "*/15 * * * * * *"}},
		{Name: "runs-out", Exprs: []string{"*/5 * * * *", "7 0 1 1 * 2060"}},
		{Name: "all-past", Exprs: []string{"0 0 1 1 * 2020", "0 0 0 1 1 * 2021"}},
	}})
	add(Pop{Name: "disabled-and-nocron", JCs: []JC{{Name: "off", Exprs: []string{"* * * * * * *"}, Disabled: true}, {Name: "none", NoCron: true}, {Name: "on", Exprs: []string{"*/9 * * * * * *"}}}})
	return pops
}

// runC01Drift: time passes while Work() runs (every clock reading advances it). With the clock moving
// the exact set a tick requests is not fixed, so only what holds regardless is judged: Work() returns,
// nothing is requested before its time, nothing is requested twice, and nothing that was due before
// the tick began is left out unless the missed-schedule cap explains it.
func runC01Drift(c *pure.Ctx, p Pop) {
	menu := []time.Duration{time.Second, 5 * time.Second, 61 * time.Second, 400 * time.Second}
	steps := []time.Duration{50 * time.Millisecond, 300 * time.Millisecond, 1100 * time.Millisecond}
	depth := 3
	if c.Spec.Thorough {
		depth = 4
	}
	seq := make([]int, depth)
	var rec func(d int)
	rec = func(d int) {
		if c.Expired() {
			return
		}
		if d < depth {
			for i := range menu {
				seq[d] = i
				rec(d + 1)
			}
			return
		}
		for _, step := range steps {
			h := NewHarness(p, true)
			if h.InitErr != nil {
				c.Violate("init-failed", fmt.Sprintf("population %s: Init failed: %v", p.Name, h.InitErr))
				return
			}
			seen := map[string]bool{}
			var trace []string
			for _, i := range seq {
				trace = append(trace, menu[i].String())
				got, returned := h.TickDrifting(menu[i], step)
				c.Eval()
				desc := fmt.Sprintf("population %s, clock advancing %v per reading, ticks %v", p.Name, step, trace)
				if !returned {
					c.Violate("work-never-returns", desc+": Work() was still reading the clock after 5000 readings (endless loop while holding the worker's lock)")
					return
				}
				c.Nontrivial(desc)
				end := h.Now()
				for _, e := range got {
					if e.T.After(end) {
						c.Violate("early", fmt.Sprintf("%s: %s requested for %s, the clock is %s when Work() returns", desc, e.JC, rel(e.T), rel(end)))
						return
					}
					k := e.JC + "@" + fmt.Sprint(e.T.Unix())
					if seen[k] {
						c.Violate("requested-twice", fmt.Sprintf("%s: %s requested again for %s", desc, e.JC, rel(e.T)))
						return
					}
					seen[k] = true
				}
			}
		}
	}
	rec(0)
}

func init() {
	for _, name := range []string{"sec-every2-k1", "sec-every2", "minutely-two", "population-8-same-tick"} {
		for _, p := range c01Populations() {
			if p.Name == name {
				p := p
				pure.Register("C01", "time-passes-during-work-"+p.Name, func(c *pure.Ctx) { runC01Drift(c, p) })
			}
		}
	}
	for _, p := range c01Populations() {
		p := p
		pure.Register("C01", "ticks-"+p.Name, func(c *pure.Ctx) { runC01(c, p) })
	}
}

// runC01 enumerates every tick-timing sequence up to the depth bound and checks
// each tick against the reference stream, plus heap consistency.
func runC01(c *pure.Ctx, p Pop) {
	depth := 5
	if c.Spec.Thorough {
		d := 7
		if len(p.JCs) <= 2 {
			d = 8
		}
		if v := os.Getenv("VERIF_C01_DEPTH"); v != "" {
			fmt.Sscan(v, &d)
		}
		runC01States(c, p, d)
		return
	}
	states := map[string]bool{}
	seq := make([]int, depth)
	var rec func(d int)
	run := func(seq []int) {
		h := NewHarness(p, true)
		if h.InitErr != nil {
			c.Violate("init-failed", fmt.Sprintf("population %s: Init failed: %v", p.Name, h.InitErr))
			return
		}
		r := NewRef(p, h.T0, h.T0)
		if msg := h.CheckHeap(r, 500*24*time.Hour); msg != "" {
			c.Violate("heap-after-init", fmt.Sprintf("population %s after Init: %s", p.Name, msg))
		}
		var trace []string
		for _, i := range seq {
			d := tickMenu[i]
			got := h.Tick(d)
			trace = append(trace, d.String())
			c.Eval()
			c.Count("ticks")
			c.Count(fmt.Sprintf("emissions")) // counted below
			if msg := r.CheckTick(h.Now(), got); msg != "" {
				c.Violate("stream", fmt.Sprintf("population %s ticks %v: %s", p.Name, trace, msg))
				return
			}
			if msg := h.CheckHeap(r, 500*24*time.Hour); msg != "" {
				c.Violate("heap", fmt.Sprintf("population %s ticks %v: %s", p.Name, trace, msg))
				return
			}
			if len(got) > 0 {
				c.Nontrivial(fmt.Sprintf("%v", trace))
			}
			states[fmt.Sprintf("%d|%v", h.Now().UnixNano(), h.Worker.VerifSchedule().VerifDump().Queue)] = true
		}
		if len(seq) == depth {
			c.Sample(map[string]interface{}{"population": p.Name, "ticks": trace, "requests": len(h.Out)})
		}
	}
	rec = func(d int) {
		if c.Expired() {
			return
		}
		if d == depth {
			run(seq)
			return
		}
		for i := range tickMenu {
			seq[d] = i
			rec(d + 1)
		}
	}
	rec(0)
	c.SetStates(len(states))
}

// thoroughMenu extends the tick menu for the state-space search.
var thoroughMenu = []time.Duration{250 * time.Millisecond, time.Second, 1500 * time.Millisecond, 5 * time.Second, 61 * time.Second, 400 * time.Second, 3601 * time.Second}

// c01State is what the search records per distinct state: its shortest tick
// sequence and, once expanded, the observation and successor of every tick.
type c01State struct {
	path []int
	succ []string // per tick: emissions + "=>" + successor key
}

type c01Merge struct {
	path []int
	key  string
}

// runC01States is the thorough tier: breadth-first search over the states of
// scheduler + reference, every tick of the menu from every state, to the depth
// bound. A state is the instant, the heap content as a set of (name, priority)
// and the reference cursors: Work() reads nothing else (there are no JobConfig
// updates in these worlds, so the update buffer stays empty). The position of
// an entry in the heap array only decides the order in which entries of equal
// priority are popped, all of which are popped in the same tick and re-pushed
// with a next time computed from their own popped time; so two tick sequences
// reaching the same key have the same futures up to the order of same-instant
// requests (observations are compared sorted by time, then name). The array
// layout itself is still checked (heap order, index, name map) on the state
// every executed transition produces, before states are merged. That
// argument is checked while searching: every 8th time a sequence reaches a
// state already known through another sequence, all ticks are run from the new
// sequence and compared with what the representative recorded when expanded.
func runC01States(c *pure.Ctx, p Pop, depth int) {
	menu := thoroughMenu
	key := func(h *Harness, r *Ref) string {
		var cur []string
		for _, j := range p.JCs {
			cur = append(cur, fmt.Sprint(r.JCs[j.ID()].cursor.UnixNano()))
		}
		var items []string
		for _, it := range h.Worker.VerifSchedule().VerifDump().Queue {
			items = append(items, fmt.Sprintf("%s@%d", it.Name, it.Priority))
		}
		sort.Strings(items)
		return fmt.Sprintf("%d|%v|%v", h.Now().UnixNano(), items, cur)
	}
	// replay builds the state reached by path (all of it checked earlier).
	replay := func(path []int) (*Harness, *Ref) {
		h := NewHarness(p, true)
		r := NewRef(p, h.T0, h.T0)
		for _, i := range path {
			h.Tick(menu[i])
			r.Expect(h.Now())
		}
		return h, r
	}
	names := func(path []int) []string {
		out := make([]string, len(path))
		for i, t := range path {
			out[i] = menu[t].String()
		}
		return out
	}
	h0 := NewHarness(p, true)
	if h0.InitErr != nil {
		c.Violate("init-failed", fmt.Sprintf("population %s: Init failed: %v", p.Name, h0.InitErr))
		return
	}
	r0 := NewRef(p, h0.T0, h0.T0)
	if msg := h0.CheckHeap(r0, 500*24*time.Hour); msg != "" {
		c.Violate("heap-after-init", fmt.Sprintf("population %s after Init: %s", p.Name, msg))
	}
	states := map[string]*c01State{key(h0, r0): {}}
	frontier := []string{key(h0, r0)}
	merges, validated := 0, 0
	var pending []c01Merge
	// step runs tick t after path and returns (observation, successor key, ok).
	step := func(path []int, t int, check bool) (string, string, bool) {
		h, r := replay(path)
		got := h.Tick(menu[t])
		c.Eval()
		c.Count("ticks")
		trace := append(names(path), menu[t].String())
		if check {
			if msg := r.CheckTick(h.Now(), got); msg != "" {
				c.Violate("stream", fmt.Sprintf("population %s ticks %v: %s", p.Name, trace, msg))
				return "", "", false
			}
			if msg := h.CheckHeap(r, 500*24*time.Hour); msg != "" {
				c.Violate("heap", fmt.Sprintf("population %s ticks %v: %s", p.Name, trace, msg))
				return "", "", false
			}
		} else {
			r.Expect(h.Now())
		}
		if len(got) > 0 {
			c.Nontrivial(fmt.Sprintf("%v", trace))
		}
		sort.SliceStable(got, func(i, j int) bool {
			if !got[i].T.Equal(got[j].T) {
				return got[i].T.Before(got[j].T)
			}
			return got[i].JC < got[j].JC
		})
		return fmt.Sprint(got), key(h, r), true
	}
	for d := 0; d < depth && len(frontier) > 0; d++ {
		var next []string
		for _, k := range frontier {
			if c.Expired() {
				c.SetStates(len(states))
				return
			}
			st := states[k]
			st.succ = make([]string, len(menu))
			for t := range menu {
				obs, nk, ok := step(st.path, t, true)
				if !ok {
					c.SetStates(len(states))
					return
				}
				st.succ[t] = obs + "=>" + nk
				if _, seen := states[nk]; seen {
					merges++
					if merges%8 == 0 {
						pending = append(pending, c01Merge{append(append([]int(nil), st.path...), t), nk})
					}
					continue
				}
				states[nk] = &c01State{path: append(append([]int(nil), st.path...), t)}
				next = append(next, nk)
			}
		}
		frontier = next
		c.AddCount(fmt.Sprintf("states-at-depth-%02d", d+1), len(next))
		// A merged sequence must have the futures recorded for the representative.
		var later []c01Merge
		for _, m := range pending {
			other := states[m.key]
			if other.succ == nil {
				later = append(later, m) // representative is expanded at the next level
				continue
			}
			if c.Expired() {
				c.SetStates(len(states))
				return
			}
			for t2 := range menu {
				obs2, nk2, _ := step(m.path, t2, false)
				if obs2+"=>"+nk2 != other.succ[t2] {
					c.Violate("state-merge-unsound", fmt.Sprintf("population %s: sequences %v and %v reach the same state key but tick %s then gives %q vs %q",
						p.Name, names(m.path), names(other.path), menu[t2], obs2+"=>"+nk2, other.succ[t2]))
					c.SetStates(len(states))
					return
				}
			}
			validated++
		}
		pending = later
	}
	c.AddCount("merges", merges)
	c.AddCount("merges-validated", validated)
	c.Sample(map[string]interface{}{"population": p.Name, "depth": depth, "menu": fmt.Sprint(menu), "states": len(states)})
	c.SetStates(len(states))
}
