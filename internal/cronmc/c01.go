package cronmc

import (
	"fmt"
	"time"

	"verif/internal/pure"
)

var tickMenu = []time.Duration{250 * time.Millisecond, time.Second, 1500 * time.Millisecond, 5 * time.Second, 61 * time.Second, 400 * time.Second}

func c01Populations() []Pop {
	var pops []Pop
	add := func(p Pop) {
		if p.K == 0 {
			p.K = 5
		}
		pops = append(pops, p)
	}
	add(Pop{Name: "sec-every2", JCs: []JC{{Name: "a", Exprs: []string{"*/2 * * * * * *"}}}})
	add(Pop{Name: "sec-every2-k1", K: 1, JCs: []JC{{Name: "a", Exprs: []string{"*/2 * * * * * *"}}}})
	add(Pop{Name: "sec-every3-k3-sgt-start+500", K: 3, StartMs: 500, JCs: []JC{{Name: "a", Exprs: []string{"*/3 * * * * * *"}, TZ: "Asia/Singapore"}}})
	add(Pop{Name: "sec-0/15-start-500", StartMs: -500, JCs: []JC{{Name: "a", Exprs: []string{"0/15 * * * * * *"}}}})
	add(Pop{Name: "minutely-two", JCs: []JC{{Name: "a", Exprs: []string{"* * * * *"}}, {Name: "b", Exprs: []string{"*/2 * * * *"}, TZ: "UTC+05:30"}}})
	add(Pop{Name: "multi-expr-overlap", JCs: []JC{{Name: "a", Exprs: []string{"*/20 * * * * * *", "*/30 * * * * * *"}}}})
	add(Pop{Name: "timezones-hour-minute", JCs: []JC{
		{Name: "sgt", Exprs: []string{"5 8 * * *"}, TZ: "Asia/Singapore"},
		{Name: "ist", Exprs: []string{"35 5 * * *"}, TZ: "UTC+05:30"},
		{Name: "mst", Exprs: []string{"5 17 * * *"}, TZ: "GMT-7"},
		{Name: "nyc", Exprs: []string{"10 19 * * *"}, TZ: "America/New_York"},
		{Name: "def", Exprs: []string{"1 0 * * *"}},
	}})
	add(Pop{Name: "default-tz-from-config", DefaultTZ: "Asia/Singapore", JCs: []JC{{Name: "a", Exprs: []string{"5 8 * * *"}}, {Name: "b", Exprs: []string{"*/7 * * * * * *"}}}})
	add(Pop{Name: "hashed", JCs: []JC{{Name: "h1", Exprs: []string{"H/5 * * * *"}}, {Name: "h2", Exprs: []string{"H * * * * * *"}}, {Name: "h3", Exprs: []string{"H/10 * * * * * *"}}}})
	add(Pop{Name: "point-in-time-and-never", JCs: []JC{
		{Name: "once", Exprs: []string{"0 12 9 2 * 2061"}}, {Name: "never", Exprs: []string{"0 0 31 2 *"}},
		{Name: "soon", Exprs: []string{"7 0 1 1 * 2060"}}, {Name: "tick", Exprs: []string{"*/10 * * * * * *"}},
	}})
	add(Pop{Name: "windows", JCs: []JC{
		{Name: "nb-on-match", Exprs: []string{"*/5 * * * * * *"}, NotBefore: ip(10)},
		{Name: "nb-off-match", Exprs: []string{"*/5 * * * * * *"}, NotBefore: ip(12)},
		{Name: "na-on-match", Exprs: []string{"*/5 * * * * * *"}, NotAfter: ip(30)},
		{Name: "na-off-match", Exprs: []string{"*/5 * * * * * *"}, NotAfter: ip(33)},
		{Name: "both", Exprs: []string{"*/4 * * * * * *"}, NotBefore: ip(8), NotAfter: ip(80)},
	}})
	add(Pop{Name: "notbefore-future-with-timezones", JCs: []JC{
		{Name: "sgt", Exprs: []string{"5 8 * * *"}, TZ: "Asia/Singapore", NotBefore: ip(120)},
		{Name: "ist", Exprs: []string{"35 5 * * *"}, TZ: "UTC+05:30", NotBefore: ip(200), NotAfter: ip(100000)},
		{Name: "mst-after-first", Exprs: []string{"5 17 * * *"}, TZ: "GMT-7", NotBefore: ip(400)},
		{Name: "nyc-sec", Exprs: []string{"*/30 * 19 * * * *"}, TZ: "America/New_York", NotBefore: ip(45)},
	}})
	add(Pop{Name: "notbefore-default-tz-from-config", DefaultTZ: "Asia/Singapore", JCs: []JC{
		{Name: "a", Exprs: []string{"5 8 * * *"}, NotBefore: ip(61)}, {Name: "b", Exprs: []string{"0 9 * * *"}, NotBefore: ip(3000)}}})
	eight := Pop{Name: "population-8-same-tick", K: 3}
	for i, e := range []string{"*/2 * * * * * *", "*/2 * * * * * *", "*/3 * * * * * *", "*/5 * * * * * *", "* * * * *", "*/4 * * * * * *", "0/30 * * * * * *", "*/6 * * * * * *"} {
		eight.JCs = append(eight.JCs, JC{Name: fmt.Sprintf("j%d", i), Exprs: []string{e}})
	}
	add(eight)
	add(Pop{Name: "disabled-and-nocron", JCs: []JC{{Name: "off", Exprs: []string{"* * * * * * *"}, Disabled: true}, {Name: "none", NoCron: true}, {Name: "on", Exprs: []string{"*/9 * * * * * *"}}}})
	return pops
}

func init() {
	for _, p := range c01Populations() {
		p := p
		pure.Register("C01", "ticks-"+p.Name, func(c *pure.Ctx) { runC01(c, p) })
	}
}

// runC01 enumerates every tick-timing sequence up to the depth bound and checks
// each tick against the reference stream, plus heap consistency.
func runC01(c *pure.Ctx, p Pop) {
	depth := 5
	if c.Spec.Thorough {
		depth = 6
		if len(p.JCs) <= 2 {
			depth = 7
		}
	}
	states := map[string]bool{}
	seq := make([]int, depth)
	var rec func(d int)
	run := func(seq []int) {
		h := NewHarness(p, true)
		if h.InitErr != nil {
			c.Violate("init-failed", fmt.Sprintf("population %s: Init failed: %v", p.Name, h.InitErr))
			return
		}
		r := NewRef(p, h.T0, h.T0)
		if msg := h.CheckHeap(r, 500*24*time.Hour); msg != "" {
			c.Violate("heap-after-init", fmt.Sprintf("population %s after Init: %s", p.Name, msg))
		}
		var trace []string
		for _, i := range seq {
			d := tickMenu[i]
			got := h.Tick(d)
			trace = append(trace, d.String())
			c.Eval()
			c.Count("ticks")
			c.Count(fmt.Sprintf("emissions")) // counted below
			if msg := r.CheckTick(h.Now(), got); msg != "" {
				c.Violate("stream", fmt.Sprintf("population %s ticks %v: %s", p.Name, trace, msg))
				return
			}
			if msg := h.CheckHeap(r, 500*24*time.Hour); msg != "" {
				c.Violate("heap", fmt.Sprintf("population %s ticks %v: %s", p.Name, trace, msg))
				return
			}
			if len(got) > 0 {
				c.Nontrivial(fmt.Sprintf("%v", trace))
			}
			states[fmt.Sprintf("%d|%v", h.Now().UnixNano(), h.Worker.VerifSchedule().VerifDump().Queue)] = true
		}
		if len(seq) == depth {
			c.Sample(map[string]interface{}{"population": p.Name, "ticks": trace, "requests": len(h.Out)})
		}
	}
	rec = func(d int) {
		if c.Expired() {
			return
		}
		if d == depth {
			run(seq)
			return
		}
		for i := range tickMenu {
			seq[d] = i
			rec(d + 1)
		}
	}
	rec(0)
	c.SetStates(len(states))
}
