// Package cronmc explores the cron scheduling core (CronWorker + Schedule +
// heap, cron InformerWorker) under a fake clock against a brute-force reference
// stream (C01, C03, C04).
package cronmc

import (
	"fmt"
	fakeclock "k8s.io/utils/clock/testing"
	"sort"
	"strings"
	"time"

	metav1 "k8s.io/apimachinery/pkg/apis/meta/v1"
	"k8s.io/apimachinery/pkg/runtime"
	"k8s.io/utils/pointer"

	configv1alpha1 "github.com/furiko-io/furiko/apis/config/v1alpha1"
	execution "github.com/furiko-io/furiko/apis/execution/v1alpha1"
	"github.com/furiko-io/furiko/pkg/execution/controllers/croncontroller"
	"github.com/furiko-io/furiko/pkg/execution/util/cron"

	"verif/internal/mc"
	"verif/internal/ref"
	"verif/internal/sim"
)

// JC describes one JobConfig of a population.
type JC struct {
	Name string `json:"name"`
	// NS is the namespace ("" = default). A JobConfig is identified by ID(): the bare name in the
	// default namespace, namespace/name elsewhere.
	NS        string   `json:"ns,omitempty"`
	Exprs     []string `json:"exprs"`
	TZ        string   `json:"tz,omitempty"`
	NotBefore *int     `json:"notBefore,omitempty"` // seconds from T0
	NotAfter  *int     `json:"notAfter,omitempty"`
	Disabled  bool     `json:"disabled,omitempty"`
	NoCron    bool     `json:"noCron,omitempty"`
	// Persisted status/spec fields (C04).
	LastScheduled *int `json:"lastScheduled,omitempty"` // seconds relative to T0 (usually negative)
	LastUpdated   *int `json:"lastUpdated,omitempty"`
}

// ID identifies the JobConfig in emissions and in the reference.
func (j JC) ID() string {
	if j.NS == "" || j.NS == "default" {
		return j.Name
	}
	return j.NS + "/" + j.Name
}

func (j JC) namespace() string {
	if j.NS == "" {
		return "default"
	}
	return j.NS
}

// Pop is a population of JobConfigs sharing one scheduler.
type Pop struct {
	Name      string `json:"name"`
	JCs       []JC   `json:"jcs"`
	StartMs   int    `json:"startMs"` // T0 = Epoch + StartMs
	K         int    `json:"k"`       // maxMissedSchedules
	DefaultTZ string `json:"defaultTZ,omitempty"`
	Downtime  int64  `json:"downtime,omitempty"` // maxDowntimeThresholdSeconds (0 = default 300)
	// ConstructEarlyS: the controller objects are constructed this many seconds before they are
	// initialised and run (a standby replica waiting for leadership); 0 = back to back.
	ConstructEarlyS int `json:"constructEarlyS,omitempty"`
}

// Emission is one EnqueueJobConfig call.
type Emission struct {
	JC string
	T  time.Time
}

// Harness is a live cron scheduling core.
type Harness struct {
	*mc.Base
	Pop     Pop
	T0      time.Time
	Worker  *croncontroller.CronWorker
	CronCtx *croncontroller.Context
	Out     []Emission
	InitErr error
	drift   *driftClock
}

type recorder struct{ h *Harness }

func (r recorder) EnqueueJobConfig(jc *execution.JobConfig, t time.Time) error {
	r.h.Out = append(r.h.Out, Emission{JC: JC{Name: jc.Name, NS: jc.Namespace}.ID(), T: t})
	return nil
}

func (p Pop) cronConfig() *configv1alpha1.CronExecutionConfig {
	cfg := &configv1alpha1.CronExecutionConfig{
		CronFormat:                  "standard",
		CronHashNames:               pointer.Bool(true),
		CronHashSecondsByDefault:    pointer.Bool(false),
		CronHashFields:              pointer.Bool(true),
		MaxMissedSchedules:          pointer.Int64(int64(p.K)),
		MaxDowntimeThresholdSeconds: p.Downtime,
	}
	if p.DefaultTZ != "" {
		cfg.DefaultTimezone = pointer.String(p.DefaultTZ)
	}
	return cfg
}

func at(t0 time.Time, off *int) *metav1.Time {
	if off == nil {
		return nil
	}
	t := metav1.NewTime(t0.Add(time.Duration(*off) * time.Second))
	return &t
}

// Object builds the JobConfig API object.
func (j JC) Object(t0 time.Time) *execution.JobConfig {
	jc := &execution.JobConfig{
		TypeMeta:   metav1.TypeMeta{APIVersion: "execution.furiko.io/v1alpha1", Kind: "JobConfig"},
		ObjectMeta: metav1.ObjectMeta{Namespace: j.namespace(), Name: j.Name},
		Spec: execution.JobConfigSpec{
			Template:    execution.JobTemplateSpec{Spec: execution.JobTemplate{TaskTemplate: execution.TaskTemplate{Pod: podTemplate()}}},
			Concurrency: execution.ConcurrencySpec{Policy: execution.ConcurrencyPolicyAllow},
		},
	}
	if !j.NoCron {
		cs := &execution.CronSchedule{Timezone: j.TZ}
		if len(j.Exprs) == 1 {
			cs.Expression = j.Exprs[0]
		} else {
			cs.Expressions = j.Exprs
		}
		jc.Spec.Schedule = &execution.ScheduleSpec{Cron: cs, Disabled: j.Disabled, LastUpdated: at(t0, j.LastUpdated)}
		if j.NotBefore != nil || j.NotAfter != nil {
			jc.Spec.Schedule.Constraints = &execution.ScheduleContraints{NotBefore: at(t0, j.NotBefore), NotAfter: at(t0, j.NotAfter)}
		}
	}
	jc.Status.LastScheduled = at(t0, j.LastScheduled)
	return jc
}

// NewHarness builds the population at T0 and starts the scheduler (Init).
// seed=true stores the JobConfigs without admission (persisted objects, C04).
func NewHarness(p Pop, seed bool) *Harness {
	h := &Harness{Pop: p, T0: sim.Epoch.Add(time.Duration(p.StartMs) * time.Millisecond)}
	cfgs := map[configv1alpha1.ConfigName]runtime.Object{configv1alpha1.CronExecutionConfigName: p.cronConfig()}
	b := mc.NewBase(cfgs, true)
	h.Base = b
	// The population exists well before the controller starts.
	b.Clock.SetTime(h.T0.Add(-10 * time.Second))
	actor := "env"
	if seed {
		actor = "seed"
	}
	for _, j := range p.JCs {
		if _, err := b.API.Create(actor, sim.JobConfigs, j.Object(h.T0)); err != nil {
			panic(fmt.Sprintf("jobconfig %s rejected: %v", j.Name, err))
		}
	}
	b.Clock.SetTime(h.T0)
	// The scheduler reads its clock through this wrapper (transparent unless TickDrifting is used).
	h.drift = &driftClock{FakeClock: b.Clock}
	croncontroller.Clock = h.drift
	b.Build = func(b *mc.Base) {
		if p.ConstructEarlyS > 0 {
			b.Clock.SetTime(h.T0.Add(-time.Duration(p.ConstructEarlyS) * time.Second))
		}
		h.CronCtx = croncontroller.NewContext(b.Ctx)
		// The worker hands requests to the recorder, nothing uses the controller's own
		// workqueue here; stop its two background goroutines (one leaked pair per replay).
		h.CronCtx.VerifQueue().ShutDown()
		h.Worker = croncontroller.NewCronWorker(h.CronCtx, recorder{h})
		iw := croncontroller.NewInformerWorker(h.CronCtx, croncontroller.NewUpdateHandler(h.CronCtx))
		b.Clock.SetTime(h.T0) // elected / started now
		iw.Init()
		h.InitErr = h.Worker.Init()
	}
	b.Start()
	return h
}

// driftClock lets time pass while Work() runs: every reading advances the simulated clock by step.
// A Work() that keeps reading the clock beyond limit readings is taken not to return.
type driftClock struct {
	*fakeclock.FakeClock
	step  time.Duration
	reads int
	limit int
}

type workNeverReturns struct{ reads int }

func (d *driftClock) Now() time.Time {
	if d.step > 0 {
		d.reads++
		if d.reads > d.limit {
			panic(workNeverReturns{d.reads})
		}
		d.FakeClock.SetTime(d.FakeClock.Now().Add(d.step))
	}
	return d.FakeClock.Now()
}

// TickDrifting is Tick with the clock advancing by step at every reading made during Work().
// returned=false means Work() did not come back within the reading limit.
func (h *Harness) TickDrifting(d, step time.Duration) (got []Emission, returned bool) {
	h.Clock.SetTime(h.Now().Add(d))
	before := len(h.Out)
	h.drift.step, h.drift.reads, h.drift.limit = step, 0, 5000
	returned = true
	func() {
		defer func() {
			h.drift.step = 0
			if r := recover(); r != nil {
				if _, ok := r.(workNeverReturns); ok {
					returned = false
					return
				}
				panic(r)
			}
		}()
		h.Worker.Work()
	}()
	return append([]Emission(nil), h.Out[before:]...), returned
}

// Tick advances the clock by d and runs one Work() iteration; it returns the emissions of this tick.
func (h *Harness) Tick(d time.Duration) []Emission {
	h.Clock.SetTime(h.Now().Add(d))
	before := len(h.Out)
	h.Worker.Work()
	return append([]Emission(nil), h.Out[before:]...)
}

// ---- reference model ----

// refJC is the reference view of one JobConfig.
type refJC struct {
	name      string
	enabled   bool
	loc       *time.Location
	plain     []*ref.CronSpec // nil entries: use trusted matcher
	trusted   []cron.Expression
	notBefore time.Time
	notAfter  time.Time
	cursor    time.Time
}

func refLocation(tz, def string) *time.Location {
	if tz == "" {
		tz = def
	}
	switch tz {
	case "", "UTC", "GMT", "Local":
		return time.UTC
	case "Asia/Singapore":
		return time.FixedZone("SGT", 8*3600)
	case "UTC+05:30":
		return time.FixedZone("x", 5*3600+1800)
	case "GMT-7":
		return time.FixedZone("x", -7*3600)
	case "UTC+8":
		return time.FixedZone("x", 8*3600)
	}
	loc, err := time.LoadLocation(tz)
	if err != nil {
		panic("reference: unknown timezone " + tz)
	}
	return loc
}

func newRefJC(j JC, p Pop, t0 time.Time) *refJC {
	r := &refJC{name: j.Name, enabled: !j.NoCron && !j.Disabled, loc: refLocation(j.TZ, p.DefaultTZ)}
	// API objects carry timestamps with second precision (metav1.Time): truncate like the API does.
	if j.NotBefore != nil {
		r.notBefore = t0.Add(time.Duration(*j.NotBefore) * time.Second).Truncate(time.Second)
	}
	if j.NotAfter != nil {
		r.notAfter = t0.Add(time.Duration(*j.NotAfter) * time.Second).Truncate(time.Second)
	}
	parser := cron.NewParserFromConfig(p.cronConfig())
	for _, e := range j.Exprs {
		spec, ok := ref.ParsePlain(e)
		if ok {
			r.plain = append(r.plain, spec)
		} else {
			r.plain = append(r.plain, nil)
		}
		ex, err := parser.Parse(e, j.namespace()+"/"+j.Name)
		if err != nil {
			panic(fmt.Sprintf("reference: cannot parse %q: %v", e, err))
		}
		r.trusted = append(r.trusted, ex)
	}
	return r
}

// matches reports whether second t is a schedule time of the JobConfig.
func (r *refJC) matches(t time.Time) bool {
	if !r.enabled {
		return false
	}
	if !r.notBefore.IsZero() && t.Before(r.notBefore) {
		return false
	}
	if !r.notAfter.IsZero() && t.After(r.notAfter) {
		return false
	}
	lt := t.In(r.loc)
	for i, spec := range r.plain {
		if spec != nil {
			if spec.Matches(lt) {
				return true
			}
			continue
		}
		if r.trusted[i].Next(lt.Add(-time.Second)).Equal(lt) {
			return true
		}
	}
	return false
}

// dueIn lists the schedule times in (from, to], at most limit+1 of them.
func (r *refJC) dueIn(from, to time.Time, limit int) []time.Time {
	var out []time.Time
	t := from.Truncate(time.Second).Add(time.Second)
	if !t.After(from) {
		t = t.Add(time.Second)
	}
	for ; !t.After(to); t = t.Add(time.Second) {
		if r.matches(t) {
			out = append(out, t)
			if len(out) > limit {
				break
			}
		}
	}
	return out
}

// nextAfter returns the first schedule time after from within the search window.
func (r *refJC) nextAfter(from time.Time, window time.Duration) (time.Time, bool) {
	t := from.Truncate(time.Second).Add(time.Second)
	end := from.Add(window)
	for ; !t.After(end); t = t.Add(time.Second) {
		if r.matches(t) {
			return t, true
		}
	}
	return time.Time{}, false
}

// trustedNext computes the next schedule time with the cron library itself
// (used only beyond the brute-force window).
func (r *refJC) trustedNext(from time.Time, window time.Duration) (time.Time, bool) {
	if !r.enabled {
		return time.Time{}, false
	}
	if !r.notBefore.IsZero() && from.Before(r.notBefore) {
		from = r.notBefore.Add(-time.Nanosecond)
	}
	var best time.Time
	for _, ex := range r.trusted {
		n := ex.Next(from.In(r.loc))
		if !n.IsZero() && (best.IsZero() || n.Before(best)) {
			best = n
		}
	}
	if best.IsZero() || best.After(from.Add(window)) {
		return time.Time{}, false
	}
	if !r.notAfter.IsZero() && best.After(r.notAfter) {
		return time.Time{}, false
	}
	return best, true
}

// Ref is the reference scheduler of a population.
type Ref struct {
	K   int
	JCs map[string]*refJC
}

// NewRef initialises cursors at start (a never-scheduled JobConfig is not back-scheduled).
func NewRef(p Pop, t0 time.Time, start time.Time) *Ref {
	r := &Ref{K: p.K, JCs: map[string]*refJC{}}
	for _, j := range p.JCs {
		rj := newRefJC(j, p, t0)
		rj.cursor = start
		r.JCs[j.ID()] = rj
	}
	return r
}

// Expect returns the emissions expected from one tick at now, per JobConfig,
// and moves the cursors.
func (r *Ref) Expect(now time.Time) map[string][]time.Time {
	out := map[string][]time.Time{}
	for name, j := range r.JCs {
		due := j.dueIn(j.cursor, now, r.K)
		if len(due) > r.K {
			out[name] = due[:r.K]
			j.cursor = now
			continue
		}
		if len(due) > 0 {
			out[name] = due
			j.cursor = due[len(due)-1]
		}
	}
	return out
}

// CheckTick compares the emissions of one tick with the reference; it returns
// a description of the first discrepancy, or "".
func (r *Ref) CheckTick(now time.Time, got []Emission) string {
	want := r.Expect(now)
	per := map[string][]time.Time{}
	var last time.Time
	for _, e := range got {
		if e.T.After(now) {
			return fmt.Sprintf("%s requested for %s before that time arrived (now %s)", e.JC, rel(e.T), rel(now))
		}
		if e.T.Before(last) {
			return fmt.Sprintf("requests of one tick not in time order: %s after %s", rel(e.T), rel(last))
		}
		last = e.T
		per[e.JC] = append(per[e.JC], e.T)
	}
	names := map[string]bool{}
	for n := range want {
		names[n] = true
	}
	for n := range per {
		names[n] = true
	}
	sorted := make([]string, 0, len(names))
	for n := range names {
		sorted = append(sorted, n)
	}
	sort.Strings(sorted)
	for _, n := range sorted {
		w, g := want[n], per[n]
		if len(w) != len(g) {
			return fmt.Sprintf("tick at %s: %s expected %v, got %v", rel(now), n, rels(w), rels(g))
		}
		for i := range w {
			if !w[i].Equal(g[i]) {
				return fmt.Sprintf("tick at %s: %s expected %v, got %v", rel(now), n, rels(w), rels(g))
			}
		}
	}
	return ""
}

func rel(t time.Time) string { return fmt.Sprintf("+%.2fs", t.Sub(sim.Epoch).Seconds()) }
func rels(ts []time.Time) []string {
	out := make([]string, 0, len(ts))
	for _, t := range ts {
		out = append(out, rel(t))
	}
	return out
}

// CheckHeap verifies heap order, the name index and every entry's priority
// against the reference next-due time (within window).
func (h *Harness) CheckHeap(r *Ref, window time.Duration) string {
	sched := h.Worker.VerifSchedule()
	if sched == nil {
		return "schedule not initialised"
	}
	d := sched.VerifDump()
	for i, it := range d.Queue {
		if it.Index != i {
			return fmt.Sprintf("heap item %s at %d has index %d", it.Name, i, it.Index)
		}
		if d.Names[it.Name] != i {
			return fmt.Sprintf("heap name index of %s is %d, item is at %d", it.Name, d.Names[it.Name], i)
		}
		if i > 0 && d.Queue[(i-1)/2].Priority > it.Priority {
			return fmt.Sprintf("heap order broken at %d", i)
		}
	}
	if len(d.Names) != len(d.Queue) {
		return fmt.Sprintf("heap name index has %d entries, queue %d", len(d.Names), len(d.Queue))
	}
	for name, j := range r.JCs {
		next, ok := j.nextAfter(j.cursor, 10*time.Minute)
		if !ok {
			// Beyond the brute-force window fall back to the trusted cron library,
			// evaluated in the JobConfig's effective zone.
			next, ok = j.trustedNext(j.cursor, window)
		}
		heapName := "default/" + name
		if strings.Contains(name, "/") {
			heapName = name
		}
		idx, present := d.Names[heapName]
		switch {
		case ok && !present:
			return fmt.Sprintf("%s is due next at %s but is not in the heap", name, rel(next))
		case ok && int64(d.Queue[idx].Priority) != next.Unix():
			return fmt.Sprintf("%s heap priority %s, reference next due %s", name, rel(time.Unix(int64(d.Queue[idx].Priority), 0)), rel(next))
		case !ok && present && time.Unix(int64(d.Queue[idx].Priority), 0).Before(j.cursor.Add(window)):
			return fmt.Sprintf("%s has no due time within %v but heap holds %s", name, window, rel(time.Unix(int64(d.Queue[idx].Priority), 0)))
		}
	}
	return ""
}
