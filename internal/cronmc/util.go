package cronmc

import (
	corev1 "k8s.io/api/core/v1"

	execution "github.com/furiko-io/furiko/apis/execution/v1alpha1"
)

func podTemplate() *execution.PodTemplateSpec {
	return &execution.PodTemplateSpec{
		Spec: corev1.PodSpec{Containers: []corev1.Container{{Name: "c", Image: "busybox", Args: []string{"echo"}}}},
	}
}

func ip(v int) *int { return &v }
