package cronmc

import (
	"fmt"
	"time"

	"verif/internal/pure"
)

func init() {
	pure.Register("C04", "catchup-product", runC04)
}

// runC04 enumerates the full product of persisted lower-bound terms x downtime
// threshold x cap x expression x restart instant on a freshly started scheduler.
func runC04(c *pure.Ctx) {
	type expr struct {
		e      string
		period int
		tz     string
	}
	// the third expression matches once, 5 minutes before the restart instant, in a non-UTC zone
	exprs := []expr{{"*/10 * * * * * *", 10, ""}, {"* * * * *", 60, ""}, {"55 7 * * *", 86400, "Asia/Singapore"}}
	lastScheduled := []*int{nil, ip(0), ip(-10), ip(-60), ip(-299), ip(-300), ip(-301), ip(-1000)}
	downtimes := []int64{0, 30, 600}
	caps := []int{1, 3, 5}
	starts := []int{0, 3000} // on a match / 3s after a match
	if c.Spec.Thorough {
		lastScheduled = append(lastScheduled, ip(-30), ip(-31), ip(-29), ip(-600), ip(-601), ip(-120))
		starts = append(starts, -500, 500, 59000)
		caps = append(caps, 2)
	}
	ticks := []time.Duration{0, time.Second, 10 * time.Second}
	for _, ex := range exprs {
		for _, ls := range lastScheduled {
			for _, dt := range downtimes {
				d := int(dt)
				if d == 0 {
					d = 300
				}
				// lastUpdated menu relative to lastScheduled / the downtime window.
				var lus []*int
				if ls == nil {
					lus = []*int{nil, ip(-20), ip(0)}
				} else {
					lus = []*int{nil, ip(*ls - 5), ip(*ls + 5), ip(*ls), ip(-d + 5), ip(-d - 5)}
				}
				for _, lu := range lus {
					nbs := []*int{nil, ip(-40), ip(-20), ip(25)}
					if ls != nil && *ls >= -120 {
						nbs = append(nbs, ip(*ls)) // notBefore exactly on the last recorded schedule time
					}
					if lu != nil {
						nbs = append(nbs, ip(*lu))
					}
					for _, nb := range nbs {
						for _, k := range caps {
							for _, st := range starts {
								for _, early := range []int{0, 3600} {
									if early > 0 && st != 0 {
										continue // the standby variant once per combination
									}
									if c.Expired() {
										return
									}
									p := Pop{Name: "c04", K: k, Downtime: dt, StartMs: st, ConstructEarlyS: early, JCs: []JC{
										{Name: "a", Exprs: []string{ex.e}, TZ: ex.tz, LastScheduled: ls, LastUpdated: lu, NotBefore: nb},
										{Name: "fresh", Exprs: []string{ex.e}, TZ: ex.tz},
										// the same name in another namespace: its own JobConfig, its own catch-up budget
										{Name: "a", NS: "team-b", Exprs: []string{ex.e}, TZ: ex.tz, LastScheduled: ls, LastUpdated: lu, NotBefore: nb},
									}}
									desc := fmt.Sprintf("expr=%q tz=%q lastScheduled=%s lastUpdated=%s notBefore=%s downtime=%d cap=%d startMs=%d constructedEarlier=%ds", ex.e, ex.tz, offs(ls), offs(lu), offs(nb), dt, k, st, early)
									h := NewHarness(p, true)
									c.Eval()
									if h.InitErr != nil {
										c.Violate("init-failed", desc+": "+h.InitErr.Error())
										continue
									}
									r := NewRef(p, h.T0, h.T0)
									// Lower bound of the persisted JobConfig.
									if ls != nil {
										cur := h.T0.Add(time.Duration(*ls) * time.Second).Truncate(time.Second) // as stored by the API

										if floor := h.T0.Add(-time.Duration(d) * time.Second); cur.Before(floor) {
											cur = floor
										}
										r.JCs["a"].cursor = cur
									}
									if lu != nil {
										if t := h.T0.Add(time.Duration(*lu) * time.Second).Truncate(time.Second); t.After(r.JCs["a"].cursor) {
											r.JCs["a"].cursor = t
										}
									}
									r.JCs["team-b/a"].cursor = r.JCs["a"].cursor // persisted identically
									nontrivial := false
									var trace []string
									for _, dt := range ticks {
										got := h.Tick(dt)
										trace = append(trace, dt.String())
										c.Count("ticks")
										for _, e := range got {
											if e.JC == "a" {
												nontrivial = true
												if ls != nil && !e.T.After(h.T0.Add(time.Duration(*ls)*time.Second).Truncate(time.Second)) {
													c.Violate("rescheduled-at-or-before-last", fmt.Sprintf("%s: requested %s which is not after lastScheduled", desc, rel(e.T)))
												}
											}
											if e.JC == "fresh" && e.T.Before(h.T0) {
												c.Violate("never-scheduled-back-scheduled", fmt.Sprintf("%s: never scheduled JobConfig requested for %s (start %s)", desc, rel(e.T), rel(h.T0)))
											}
										}
										if msg := r.CheckTick(h.Now(), got); msg != "" {
											c.Violate("catchup-stream", fmt.Sprintf("%s ticks %v: %s", desc, trace, msg))
											break
										}
										if msg := h.CheckHeap(r, 500*24*time.Hour); msg != "" {
											c.Violate("catchup-heap", fmt.Sprintf("%s ticks %v: %s", desc, trace, msg))
											break
										}
									}
									if nontrivial {
										c.Nontrivial(desc)
										c.Sample(map[string]interface{}{"case": desc, "requests": fmt.Sprintf("%v", h.Out)})
									}
								}
							}
						}
					}
				}
			}
		}
	}
}

func offs(v *int) string {
	if v == nil {
		return "nil"
	}
	return fmt.Sprintf("%+ds", *v)
}
