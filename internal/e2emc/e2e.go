// Package e2emc runs all four furiko controllers, the active-job store, the
// cron worker and the real webhooks on one simulated API server under a
// deterministic default schedule, and enumerates every execution with a
// bounded number of deviations (failing / conflicting / applied-but-timed-out
// API calls, process crashes) from it (C20, C04 end to end).
package e2emc

import (
	"context"
	"crypto/sha256"
	"encoding/hex"
	"encoding/json"
	"fmt"
	"regexp"
	"sort"
	"strings"
	"time"

	corev1 "k8s.io/api/core/v1"
	metav1 "k8s.io/apimachinery/pkg/apis/meta/v1"
	"k8s.io/apimachinery/pkg/runtime"
	"k8s.io/client-go/tools/record"
	"k8s.io/utils/pointer"

	configv1alpha1 "github.com/furiko-io/furiko/apis/config/v1alpha1"
	execution "github.com/furiko-io/furiko/apis/execution/v1alpha1"
	"github.com/furiko-io/furiko/pkg/execution/controllers/croncontroller"
	"github.com/furiko-io/furiko/pkg/execution/controllers/jobconfigcontroller"
	"github.com/furiko-io/furiko/pkg/execution/controllers/jobcontroller"
	"github.com/furiko-io/furiko/pkg/execution/controllers/jobqueuecontroller"
	"github.com/furiko-io/furiko/pkg/execution/stores/activejobstore"
	"github.com/furiko-io/furiko/pkg/execution/taskexecutor/podtaskexecutor"
	jobutil "github.com/furiko-io/furiko/pkg/execution/util/job"
	"github.com/furiko-io/furiko/pkg/execution/util/jobconfig"
	"github.com/furiko-io/furiko/pkg/runtime/reconciler"

	"verif/internal/mc"
	"verif/internal/sim"
)

// Workload of an end-to-end run.
type Workload struct {
	Name        string `json:"name"`
	Policy      string `json:"policy"`     // Forbid | Enqueue | Allow
	Parallel    int64  `json:"parallel"`   // withCount (0 = none)
	PodSeconds  int    `json:"podSeconds"` // a pod succeeds this long after it was created
	TTL         int64  `json:"ttl"`        // default TTL after finished
	HorizonS    int    `json:"horizonS"`   // simulated seconds
	MaxAttempts int64  `json:"maxAttempts"`
	FailFirst   bool   `json:"failFirst"` // the first attempt of every index fails
	// DeleteNewestAt: at this simulated second the user deletes the newest scheduled Job (0 = never).
	DeleteNewestAt int `json:"deleteNewestAt,omitempty"`
}

type cronNoop struct{}

func (cronNoop) CreatedJob(context.Context, *execution.JobConfig, *execution.Job)              {}
func (cronNoop) CreateJobFailed(context.Context, *execution.JobConfig, *execution.Job, string) {}
func (cronNoop) SkippedJobSchedule(context.Context, *execution.JobConfig, time.Time, string)   {}

// Run is one execution.
type Run struct {
	*mc.Base
	wl     Workload
	worker *croncontroller.CronWorker
	store  *activejobstore.Store

	// global fault plan: call ordinal -> kind
	plan    map[int]sim.FaultKind
	calls   int
	callLog []string
	crashes int
	// monitors
	created map[string]int // pod identity -> creations
	jobsFor map[string]int // jc|scheduleTime -> jobs created
	steps   int
	states  map[string]bool
	onCrash func()
	// userDeleted: the one user deletion of the workload has happened
	userDeleted bool
}

func newRun(wl Workload, plan map[int]sim.FaultKind, states map[string]bool) *Run {
	r := &Run{wl: wl, plan: plan, created: map[string]int{}, jobsFor: map[string]int{}, states: states}
	cfgs := map[configv1alpha1.ConfigName]runtime.Object{
		configv1alpha1.JobExecutionConfigName: &configv1alpha1.JobExecutionConfig{DefaultTTLSecondsAfterFinished: pointer.Int64(wl.TTL),
			DefaultPendingTimeoutSeconds: pointer.Int64(900), ForceDeleteTaskTimeoutSeconds: pointer.Int64(900)},
		configv1alpha1.CronExecutionConfigName: &configv1alpha1.CronExecutionConfig{CronFormat: "standard", MaxMissedSchedules: pointer.Int64(5), MaxDowntimeThresholdSeconds: 300},
	}
	b := mc.NewBase(cfgs, true)
	r.Base = b
	b.API.OnWrite = r.onWrite
	b.API.OnCall = func(c sim.Call) {}
	pt := &execution.PodTemplateSpec{Spec: corev1.PodSpec{Containers: []corev1.Container{{Name: "c", Image: "img"}}}}
	jc := &execution.JobConfig{
		TypeMeta:   metav1.TypeMeta{APIVersion: "execution.furiko.io/v1alpha1", Kind: "JobConfig"},
		ObjectMeta: metav1.ObjectMeta{Namespace: "default", Name: "jc"},
		Spec: execution.JobConfigSpec{
			Concurrency: execution.ConcurrencySpec{Policy: execution.ConcurrencyPolicy(wl.Policy)},
			Schedule:    &execution.ScheduleSpec{Cron: &execution.CronSchedule{Expression: "* * * * *"}},
			Template:    execution.JobTemplateSpec{Spec: execution.JobTemplate{TaskTemplate: execution.TaskTemplate{Pod: pt}}},
		},
	}
	if wl.Parallel > 0 {
		jc.Spec.Template.Spec.Parallelism = &execution.ParallelismSpec{WithCount: pointer.Int64(wl.Parallel), CompletionStrategy: execution.AllSuccessful}
	}
	if wl.MaxAttempts > 0 {
		jc.Spec.Template.Spec.MaxAttempts = pointer.Int64(wl.MaxAttempts)
	}
	b.Clock.SetTime(sim.Epoch.Add(-30 * time.Second))
	if _, err := b.API.Create("env", sim.JobConfigs, jc); err != nil {
		panic(err)
	}
	b.Clock.SetTime(sim.Epoch)
	b.Build = r.build
	b.Start()
	return r
}

func (r *Run) build(b *mc.Base) {
	store, err := activejobstore.NewStore(b.Ctx)
	if err != nil {
		panic(err)
	}
	if err := store.Recover(context.Background()); err != nil {
		panic(err)
	}
	b.Ctx.Stores().Register(store)
	r.store = store
	conc := &configv1alpha1.Concurrency{Workers: 1}
	rec := &record.FakeRecorder{}
	// cron controller
	cctx := croncontroller.NewContext(b.Ctx)
	cq := b.AddQueue("cron", nil)
	cctx.VerifSetQueue(cq)
	r.worker = croncontroller.NewCronWorker(cctx, croncontroller.VerifNewEnqueueHandler(cctx))
	croncontroller.NewInformerWorker(cctx, croncontroller.NewUpdateHandler(cctx)).Init()
	name := (&croncontroller.Reconciler{}).Name()
	client := croncontroller.NewExecutionControl(name, b.Ctx.Clientsets().Furiko().ExecutionV1alpha1(), cronNoop{})
	b.SetWorker("cron", reconciler.NewController(croncontroller.NewReconciler(cctx, client, cronNoop{}, store, conc), cq))
	if err := r.worker.Init(); err != nil {
		panic(err)
	}
	// job queue controller
	qctx := jobqueuecontroller.NewContextWithRecorder(b.Ctx, rec)
	jcq, indq := b.AddQueue("jcq", nil), b.AddQueue("indq", nil)
	qctx.VerifSetQueues(jcq, indq)
	jobqueuecontroller.NewInformerWorker(qctx)
	control := jobqueuecontroller.NewJobControl(b.Ctx.Clientsets().Furiko().ExecutionV1alpha1(), rec)
	b.SetWorker("jcq", reconciler.NewController(jobqueuecontroller.NewPerConfigReconciler(qctx, conc, control), jcq))
	b.SetWorker("indq", reconciler.NewController(jobqueuecontroller.NewIndependentReconciler(qctx, conc, control), indq))
	// job controller
	jctx := jobcontroller.NewContextWithRecorder(b.Ctx, rec)
	jq := b.AddQueue("job", nil)
	jctx.VerifSetQueue(jq)
	jobcontroller.NewInformerWorker(jctx)
	b.SetWorker("job", reconciler.NewController(jobcontroller.NewReconciler(jctx, conc), jq))
	// jobconfig controller
	gctx := jobconfigcontroller.NewContextWithRecorder(b.Ctx, rec)
	gq := b.AddQueue("jobconfig", nil)
	gctx.VerifSetQueue(gq)
	jobconfigcontroller.NewInformerWorker(gctx)
	b.SetWorker("jobconfig", reconciler.NewController(jobconfigcontroller.NewReconciler(gctx, conc), gq))
}

// ---- monitors (safety during faulty runs) ----

func (r *Run) onWrite(wr sim.Write) {
	switch {
	case wr.Resource == sim.Jobs && wr.Verb == "create" && wr.Actor == "ctrl":
		rj := wr.New.(*execution.Job)
		id := rj.Labels[jobconfig.LabelKeyJobConfigUID] + "|" + rj.Annotations[jobconfig.AnnotationKeyScheduleTime]
		for _, o := range r.API.List(sim.Jobs) {
			other := o.(*execution.Job)
			if other.Name != rj.Name && other.Labels[jobconfig.LabelKeyJobConfigUID]+"|"+other.Annotations[jobconfig.AnnotationKeyScheduleTime] == id {
				r.Violate("C20", "duplicate-scheduled-job", fmt.Sprintf("jobs %s and %s exist for the same schedule time", other.Name, rj.Name))
			}
		}
		r.jobsFor[id]++
		if r.jobsFor[id] > 1 {
			r.Violate("C20", "schedule-time-created-again", fmt.Sprintf("a Job for schedule time %s was created again (%s); the first one had been created and recorded before", rj.Annotations[jobconfig.AnnotationKeyScheduleTime], rj.Name), r.Features()...)
		}
	case wr.Resource == sim.Jobs && wr.Verb == "update":
		old, new := wr.Old.(*execution.Job), wr.New.(*execution.Job)
		if old.Status.StartTime.IsZero() && !new.Status.StartTime.IsZero() && r.wl.Policy != "Allow" {
			active := 0
			for _, o := range r.API.List(sim.Jobs) {
				if j := o.(*execution.Job); j.Name != new.Name && jobutil.IsActive(j) {
					active++
				}
			}
			if active >= 1 {
				r.Violate("C20", "over-admission", fmt.Sprintf("%s job %s started while %d job(s) are active", r.wl.Policy, new.Name, active), r.Features()...)
			}
		}
		if !old.Status.StartTime.IsZero() && !old.Status.StartTime.Equal(new.Status.StartTime) {
			r.Violate("C20", "start-time-changed", "startTime changed on "+new.Name)
		}
		if old.Status.Condition.Finished != nil && new.Status.Condition.Finished == nil {
			r.Violate("C20", "unfinished-again", "finished job became unfinished: "+new.Name)
		}
	case wr.Resource == sim.Jobs && wr.Verb == "delete":
		old := wr.Old.(*execution.Job)
		for _, t := range old.Status.Tasks {
			if r.API.Pod("default/"+t.Name) != nil {
				r.Violate("C20", "job-removed-before-tasks", fmt.Sprintf("job %s removed while listed task %s exists", old.Name, t.Name), r.Features()...)
			}
		}
	case wr.Resource == sim.Pods && wr.Verb == "create" && wr.Actor == "ctrl":
		p := wr.New.(*corev1.Pod)
		r.created[p.Name]++
		if r.created[p.Name] > 1 {
			r.Violate("C20", "attempt-duplicated", "pod "+p.Name+" created twice", r.Features()...)
		}
		for _, o := range r.API.List(sim.Pods) {
			q := o.(*corev1.Pod)
			if q.Name != p.Name && q.Labels[podtaskexecutor.LabelKeyJobUID] == p.Labels[podtaskexecutor.LabelKeyJobUID] &&
				q.Labels[podtaskexecutor.LabelKeyTaskParallelIndexHash] == p.Labels[podtaskexecutor.LabelKeyTaskParallelIndexHash] &&
				q.Status.Phase != corev1.PodSucceeded && q.Status.Phase != corev1.PodFailed {
				r.Violate("C20", "two-live-tasks", fmt.Sprintf("pod %s created while %s of the same index is alive", p.Name, q.Name), r.Features()...)
			}
		}
	}
}

// ---- deterministic default schedule ----

func (r *Run) faultsForStep() map[string]sim.FaultKind {
	// Translate the global plan into a per-step plan lazily: the API consults r.plan through OnBegin.
	return nil
}

// drain delivers everything and works every ready key until the system is quiet.
func (r *Run) drain() bool {
	for guard := 0; guard < 2000; guard++ {
		progressed := false
		for _, inf := range r.Ctx.Set.All() {
			for inf.Pending() > 0 {
				r.Apply("deliver:" + inf.Resource)
				r.note()
				progressed = true
			}
		}
		for _, qn := range r.QueueNames {
			ready := r.Queues[qn].Ready()
			if len(ready) == 0 {
				continue
			}
			r.workOne(qn, ready[0])
			progressed = true
			break
		}
		if !progressed {
			return true
		}
	}
	return false
}

func (r *Run) note() {
	r.steps++
	if r.states != nil {
		r.states[r.Key()] = true
	}
}

// workOne runs one sync; the global plan decides which of its calls deviate. The step is first
// probed for the ordinals it will use: calls are counted by the API (GlobalCalls).
func (r *Run) workOne(qn, key string) {
	action := "work:" + qn + ":" + key
	before := r.API.GlobalCalls
	r.API.GlobalFaults = r.plan
	restarts := r.Restarts
	if r.onCrash != nil {
		// the hook must observe the API as it is when the crash happens: approximate by sampling before the step
		if _, ok := r.plan[r.API.GlobalCalls]; ok || r.crashSoon(before) {
			r.onCrash()
		}
	}
	r.Apply(action)
	_ = restarts
	for _, c := range r.Calls() {
		r.callLog = append(r.callLog, qn+":"+c.ID+"="+c.Outcome)
	}
	r.calls += r.API.GlobalCalls - before
	r.note()
}

// crashSoon reports whether a crash ordinal lies within the next few calls (the coming step).
func (r *Run) crashSoon(from int) bool {
	for o, k := range r.plan {
		if k == sim.FaultCrash && o >= from && o < from+16 {
			return true
		}
	}
	return false
}

func (r *Run) kubelet() bool {
	acted := false
	now := metav1.NewTime(r.Now())
	for _, o := range r.API.List(sim.Pods) {
		p := o.(*corev1.Pod)
		key := sim.ObjKey(p)
		switch {
		case p.DeletionTimestamp != nil:
			r.API.EnvRemove(sim.Pods, key)
			acted = true
		case p.Status.Phase == corev1.PodSucceeded || p.Status.Phase == corev1.PodFailed:
		case p.Status.Phase != corev1.PodRunning:
			r.API.EnvMutate(sim.Pods, key, func(o runtime.Object) {
				q := o.(*corev1.Pod)
				q.Spec.NodeName = "node1"
				q.Status.Phase = corev1.PodRunning
				q.Status.StartTime = &now
				q.Status.ContainerStatuses = []corev1.ContainerStatus{{Name: "c", State: corev1.ContainerState{Running: &corev1.ContainerStateRunning{StartedAt: now}}}}
			})
			acted = true
		case !r.Now().Before(p.CreationTimestamp.Add(time.Duration(r.wl.PodSeconds) * time.Second)):
			fail := r.wl.FailFirst && p.Labels[podtaskexecutor.LabelKeyTaskRetryIndex] == "0"
			r.API.EnvMutate(sim.Pods, key, func(o runtime.Object) {
				q := o.(*corev1.Pod)
				started := podtaskexecutor.GetContainerStartTime(q)
				term := &corev1.ContainerStateTerminated{StartedAt: started, FinishedAt: now, Reason: "Completed"}
				q.Status.Phase = corev1.PodSucceeded
				if fail {
					q.Status.Phase = corev1.PodFailed
					term.ExitCode, term.Reason = 1, "Error"
				}
				q.Status.ContainerStatuses = []corev1.ContainerStatus{{Name: "c", State: corev1.ContainerState{Terminated: term}}}
			})
			acted = true
		}
	}
	if acted {
		r.note()
	}
	return acted
}

// Execute runs the workload to the horizon and returns the canonical final state.
func (r *Run) Execute() (final string, ok bool) {
	horizon := sim.Epoch.Add(time.Duration(r.wl.HorizonS) * time.Second)
	r.worker.Work()
	for {
		for guard := 0; ; guard++ {
			if !r.drain() || guard > 200 {
				r.Violate("C20", "no-convergence", "the system does not become quiet within 2000 steps at one instant (retrying forever)", r.Features()...)
				return r.canonical(), false
			}
			if !r.kubelet() {
				break
			}
		}
		if at := r.wl.DeleteNewestAt; at > 0 && !r.userDeleted && !r.Now().Before(sim.Epoch.Add(time.Duration(at)*time.Second)) {
			r.userDeleted = true
			var newest *execution.Job
			for _, o := range r.API.List(sim.Jobs) {
				rj := o.(*execution.Job)
				if t := jobconfig.GetLabelScheduleTime(rj); t != nil && rj.DeletionTimestamp == nil {
					if newest == nil || t.After(jobconfig.GetLabelScheduleTime(newest).Time) {
						newest = rj
					}
				}
			}
			if newest != nil {
				if err := r.API.Delete("env", sim.Jobs, sim.ObjKey(newest), -1); err != nil {
					panic(err)
				}
				r.note()
				continue // let the controllers react at this same instant
			}
		}
		if !r.Now().Before(horizon) {
			break
		}
		// next instant: earliest timer, next whole 10 seconds (cron tick granularity here), pod completion
		next := r.Now().Truncate(10 * time.Second).Add(10 * time.Second)
		for _, qn := range r.QueueNames {
			if due, ok := r.Queues[qn].NextDue(); ok && due.After(r.Now()) && due.Before(next) {
				next = due
			}
		}
		r.Clock.SetTime(next)
		for _, qn := range r.QueueNames {
			r.Queues[qn].Promote()
		}
		r.worker.Work()
		r.note()
	}
	return r.canonical(), true
}

var maskRe = regexp.MustCompile(`"resourceVersion":"\d+"`)

// canonical renders the final API state with resourceVersions masked.
func (r *Run) canonical() string {
	d := r.API.Dump()
	keys := make([]string, 0, len(d))
	for k := range d {
		keys = append(keys, k)
	}
	sort.Strings(keys)
	var sb strings.Builder
	for _, k := range keys {
		sb.WriteString(k + " " + maskRe.ReplaceAllString(string(d[k]), `"resourceVersion":"*"`) + "\n")
	}
	return sb.String()
}

// Summary is a short description of a final state.
func (r *Run) Summary() string {
	var parts []string
	for _, o := range r.API.List(sim.Jobs) {
		j := o.(*execution.Job)
		parts = append(parts, fmt.Sprintf("%s:%s", j.Name, j.Status.Phase))
	}
	jc := r.API.JobConfig("default/jc")
	ls := "nil"
	if jc != nil && jc.Status.LastScheduled != nil {
		ls = fmt.Sprintf("+%.0fs", jc.Status.LastScheduled.Sub(sim.Epoch).Seconds())
	}
	return fmt.Sprintf("jobs[%s] pods=%d lastScheduled=%s", strings.Join(parts, ","), len(r.API.List(sim.Pods)), ls)
}

func hashOf(s string) string {
	h := sha256.Sum256([]byte(s))
	return hex.EncodeToString(h[:6])
}

var _ = json.Marshal
