package e2emc

import (
	"fmt"
	"sort"
	"strings"

	execution "github.com/furiko-io/furiko/apis/execution/v1alpha1"
	"github.com/furiko-io/furiko/pkg/execution/util/jobconfig"

	"verif/internal/pure"
	"verif/internal/sim"
)

func workloads() []Workload {
	return []Workload{
		{Name: "forbid-fast-pods", Policy: "Forbid", PodSeconds: 10, TTL: 30, HorizonS: 200},
		{Name: "enqueue-slow-pods", Policy: "Enqueue", PodSeconds: 70, TTL: 30, HorizonS: 260},
		{Name: "forbid-slow-pods", Policy: "Forbid", PodSeconds: 70, TTL: 30, HorizonS: 200},
		{Name: "allow-parallel2-retry", Policy: "Allow", Parallel: 2, PodSeconds: 10, TTL: 30, HorizonS: 140, MaxAttempts: 2, FailFirst: true},
	}
}

func init() {
	for _, wl := range workloads() {
		wl := wl
		pure.Register("C20", "e2e-faults-"+wl.Name, func(c *pure.Ctx) { exploreFaults(c, wl) })
	}
	pure.Register("C04", "e2e-crash-restart", exploreCrashes)
	pure.Register("C04", "e2e-crash-restart-after-delete", exploreCrashesAfterDelete)
}

func kindsFor(call string) []sim.FaultKind {
	kinds := []sim.FaultKind{sim.FaultError, sim.FaultTimeout}
	if strings.Contains(call, ":update/") {
		kinds = append(kinds, sim.FaultConflict)
	}
	return kinds
}

func planString(plan map[int]sim.FaultKind, log []string) string {
	var ords []int
	for o := range plan {
		ords = append(ords, o)
	}
	sort.Ints(ords)
	var parts []string
	for _, o := range ords {
		name := "?"
		if o < len(log) {
			name = log[o]
		}
		parts = append(parts, fmt.Sprintf("call#%d(%s)=%s", o, name, plan[o]))
	}
	return strings.Join(parts, " + ")
}

// exploreFaults enumerates every execution with at most 1 (quick) / 2 (thorough) failing API calls.
func exploreFaults(c *pure.Ctx, wl Workload) {
	states := map[string]bool{}
	base := newRun(wl, nil, states)
	f0, ok := base.Execute()
	c.Eval()
	for _, v := range base.TakeViolations() {
		c.Violate(v.Monitor, fmt.Sprintf("workload %s, fault-free run: %s", wl.Name, v.Detail))
	}
	if !ok {
		return
	}
	baseLog := base.callLog
	c.Sample(map[string]interface{}{"workload": wl, "fault_free_calls": len(baseLog), "fault_free_outcome": base.Summary(), "first_calls": baseLog[:min(12, len(baseLog))]})
	maxDev := 1
	if c.Spec.Thorough {
		maxDev = 2
	}
	var rec func(plan map[int]sim.FaultKind, from int, log []string, depth int)
	rec = func(plan map[int]sim.FaultKind, from int, log []string, depth int) {
		for i := from; i < len(log); i++ {
			call := log[i]
			for _, k := range kindsFor(call) {
				if c.Expired() {
					return
				}
				p := map[int]sim.FaultKind{i: k}
				for o, kk := range plan {
					p[o] = kk
				}
				r := newRun(wl, p, states)
				final, ok := r.Execute()
				c.Eval()
				c.Count("executions")
				desc := fmt.Sprintf("workload %s, deviations: %s", wl.Name, planString(p, r.callLog))
				c.Nontrivial(desc)
				for _, v := range r.TakeViolations() {
					c.Violate(v.Monitor, desc+": "+v.Detail, featuresOf(p, r.callLog)...)
				}
				if ok && final != f0 {
					c.Violate("outcome-differs", fmt.Sprintf("%s: final state differs from the fault-free run: %s vs fault-free %s; %s", desc, r.Summary(), base.Summary(), firstDiff(f0, final)), featuresOf(p, r.callLog)...)
				}
				if depth+1 < maxDev && ok {
					rec(p, i+1, r.callLog, depth+1)
				}
			}
		}
	}
	rec(map[int]sim.FaultKind{}, 0, baseLog, 0)
	c.SetStates(len(states))
}

// featuresOf names the deviations of a plan: fault:<queue>:<verb>/<resource>[/<sub>]=<kind>.
func featuresOf(p map[int]sim.FaultKind, log []string) []string {
	set := map[string]bool{}
	for o, k := range p {
		name := "?"
		if o < len(log) {
			// log entry: queue:verb/resource/name[/sub]#n=outcome
			e := log[o]
			q, rest, _ := strings.Cut(e, ":")
			id, _, _ := strings.Cut(rest, "#")
			parts := strings.Split(id, "/")
			name = q + ":" + parts[0] + "/" + parts[1]
			if len(parts) > 3 {
				name += "/" + parts[3]
			}
		}
		set["fault:"+name+"="+string(k)] = true
	}
	var out []string
	for k := range set {
		out = append(out, k)
	}
	sort.Strings(out)
	return out
}

func firstDiff(a, b string) string {
	la, lb := strings.Split(a, "\n"), strings.Split(b, "\n")
	for i := 0; i < len(la) || i < len(lb); i++ {
		var x, y string
		if i < len(la) {
			x = la[i]
		}
		if i < len(lb) {
			y = lb[i]
		}
		if x != y {
			// show the differing object key and a short excerpt around the first differing byte
			j := 0
			for j < len(x) && j < len(y) && x[j] == y[j] {
				j++
			}
			lo := j - 60
			if lo < 0 {
				lo = 0
			}
			cut := func(s string) string {
				hi := j + 80
				if hi > len(s) {
					hi = len(s)
				}
				if lo > len(s) {
					return ""
				}
				return s[lo:hi]
			}
			key := strings.SplitN(x+" ", " ", 2)[0]
			if key == "" {
				key = strings.SplitN(y+" ", " ", 2)[0]
			}
			return fmt.Sprintf("first difference in %s: fault-free ...%s... vs ...%s...", key, cut(x), cut(y))
		}
	}
	return "no textual difference"
}

func min(a, b int) int {
	if a < b {
		return a
	}
	return b
}

// exploreCrashes (C04 end to end): a crash at every API call of the fault-free run; after restart and
// quiescence every schedule time later than the lastScheduled persisted at the crash has its Job, none twice.
func exploreCrashes(c *pure.Ctx) {
	exploreCrashesOf(c, Workload{Name: "crash-restart", Policy: "Allow", PodSeconds: 10, TTL: 3600, HorizonS: 200})
}

// exploreCrashesAfterDelete: the user deletes the newest scheduled Job (an older one remains)
// between two schedule times; a restart afterwards must not request its schedule time again.
func exploreCrashesAfterDelete(c *pure.Ctx) {
	exploreCrashesOf(c, Workload{Name: "crash-restart-after-delete", Policy: "Allow", PodSeconds: 10, TTL: 3600, HorizonS: 200, DeleteNewestAt: 130})
}

func exploreCrashesOf(c *pure.Ctx, wl Workload) {
	states := map[string]bool{}
	base := newRun(wl, nil, states)
	_, ok := base.Execute()
	c.Eval()
	if !ok {
		c.Violate("no-convergence", "fault-free run does not converge")
		return
	}
	want := scheduledTimes(base)
	c.Sample(map[string]interface{}{"workload": wl, "fault_free_jobs_for_schedule_times": want, "calls": len(base.callLog)})
	for i := range base.callLog {
		if c.Expired() {
			return
		}
		r := newRun(wl, map[int]sim.FaultKind{i: sim.FaultCrash}, states)
		// remember lastScheduled as persisted when the crash happens
		lsAtCrash := int64(-1)
		r.onCrash = func() {
			if jc := r.API.JobConfig("default/jc"); jc != nil && jc.Status.LastScheduled != nil {
				lsAtCrash = jc.Status.LastScheduled.Unix()
			}
		}
		_, ok := r.Execute()
		c.Eval()
		desc := fmt.Sprintf("crash at call#%d (%s)", i, base.callLog[i])
		c.Nontrivial(desc)
		for _, v := range r.TakeViolations() {
			c.Violate(v.Monitor, desc+": "+v.Detail, "crash")
		}
		if !ok {
			continue
		}
		got := map[int64]bool{}
		for _, t := range scheduledTimes(r) {
			got[t] = true
		}
		for _, t := range want {
			if got[t] {
				continue
			}
			// Tolerated: the JobConfig had never been scheduled when the crash hit (no back-scheduling by design).
			if lsAtCrash < 0 {
				c.Count("tolerated: first-ever schedule lost in crash (never scheduled => not back-scheduled)")
				continue
			}
			if t <= lsAtCrash {
				c.Violate("missing-job-at-or-before-last-scheduled", fmt.Sprintf("%s: Job for schedule time %d missing although lastScheduled=%d says it was created", desc, t, lsAtCrash), "crash")
				continue
			}
			c.Violate("catchup-missed", fmt.Sprintf("%s: schedule time +%ds has no Job after restart and quiescence (lastScheduled at crash +%ds): %s", desc, t-sim.Epoch.Unix(), lsAtCrash-sim.Epoch.Unix(), r.Summary()), "crash")
		}
		for t := range got {
			found := false
			for _, w := range want {
				if w == t {
					found = true
				}
			}
			if !found {
				c.Violate("extra-job", fmt.Sprintf("%s: Job for schedule time %d that the fault-free run does not have", desc, t), "crash")
			}
		}
	}
	c.SetStates(len(states))
}

func scheduledTimes(r *Run) []int64 {
	var out []int64
	for _, o := range r.API.List(sim.Jobs) {
		if t := jobconfig.GetLabelScheduleTime(o.(*execution.Job)); t != nil {
			out = append(out, t.Unix())
		}
	}
	sort.Slice(out, func(i, j int) bool { return out[i] < out[j] })
	return out
}
