package sim

import (
	"context"
	"encoding/json"
	"fmt"

	jsonpatch "github.com/evanphx/json-patch"
	admissionv1 "k8s.io/api/admission/v1"
	kerrors "k8s.io/apimachinery/pkg/api/errors"
	metav1 "k8s.io/apimachinery/pkg/apis/meta/v1"
	"k8s.io/apimachinery/pkg/runtime"

	configv1alpha1 "github.com/furiko-io/furiko/apis/config/v1alpha1"
	"github.com/furiko-io/furiko/pkg/execution/webhooks/jobconfigmutatingwebhook"
	"github.com/furiko-io/furiko/pkg/execution/webhooks/jobconfigvalidatingwebhook"
	"github.com/furiko-io/furiko/pkg/execution/webhooks/jobmutatingwebhook"
	"github.com/furiko-io/furiko/pkg/execution/webhooks/jobvalidatingwebhook"
)

// Handler is the common shape of furiko's admission webhooks.
type Handler interface {
	Handle(ctx context.Context, req *admissionv1.AdmissionRequest) (*admissionv1.AdmissionResponse, error)
}

// Webhooks holds the four real furiko webhooks, running in their own
// simulated process with always-fresh caches.
type Webhooks struct {
	Ctx               *Context
	JobMutating       Handler
	JobValidating     Handler
	JobConfigMutating Handler
	JobConfigValidate Handler
	// Calls counts webhook invocations.
	Calls int
}

// NewWebhooks builds the real webhooks on a fresh-cache context.
func NewWebhooks(api *API, cfgs map[configv1alpha1.ConfigName]runtime.Object) *Webhooks {
	ctx := NewContext(api, "webhook", true, cfgs)
	w := &Webhooks{Ctx: ctx}
	var err error
	if w.JobMutating, err = jobmutatingwebhook.NewWebhook(ctx); err != nil {
		panic(err)
	}
	if w.JobValidating, err = jobvalidatingwebhook.NewWebhook(ctx); err != nil {
		panic(err)
	}
	if w.JobConfigMutating, err = jobconfigmutatingwebhook.NewWebhook(ctx); err != nil {
		panic(err)
	}
	if w.JobConfigValidate, err = jobconfigvalidatingwebhook.NewWebhook(ctx); err != nil {
		panic(err)
	}
	return w
}

var kinds = map[string]metav1.GroupVersionKind{
	Jobs:       {Group: "execution.furiko.io", Version: "v1alpha1", Kind: "Job"},
	JobConfigs: {Group: "execution.furiko.io", Version: "v1alpha1", Kind: "JobConfig"},
}

// Admit implements Admission with the real webhooks: mutating first, its JSON
// patch applied to the raw object with the library the API server uses, then
// validating on the result.
func (w *Webhooks) Admit(resource, op string, old, obj runtime.Object) (runtime.Object, error) {
	kind, ok := kinds[resource]
	if !ok {
		return obj, nil
	}
	var mut, val Handler
	if resource == Jobs {
		mut, val = w.JobMutating, w.JobValidating
	} else {
		mut, val = w.JobConfigMutating, w.JobConfigValidate
	}
	raw, err := json.Marshal(obj)
	if err != nil {
		return nil, err
	}
	var oldRaw []byte
	if old != nil {
		if oldRaw, err = json.Marshal(old); err != nil {
			return nil, err
		}
	}
	name := accessor(obj).GetName()
	req := &admissionv1.AdmissionRequest{
		UID:       "sim",
		Kind:      kind,
		Name:      name,
		Namespace: accessor(obj).GetNamespace(),
		Operation: admissionv1.Operation(op),
		Object:    runtime.RawExtension{Raw: raw},
		OldObject: runtime.RawExtension{Raw: oldRaw},
	}
	w.Calls++
	resp, err := mut.Handle(context.Background(), req)
	if err != nil {
		return nil, kerrors.NewInternalError(fmt.Errorf("mutating webhook: %w", err))
	}
	if !resp.Allowed {
		return nil, &kerrors.StatusError{ErrStatus: *resp.Result}
	}
	if len(resp.Patch) > 0 {
		patch, err := jsonpatch.DecodePatch(resp.Patch)
		if err != nil {
			return nil, kerrors.NewInternalError(fmt.Errorf("decode webhook patch: %w", err))
		}
		raw, err = patch.Apply(raw)
		if err != nil {
			return nil, kerrors.NewInternalError(fmt.Errorf("apply webhook patch: %w", err))
		}
	}
	req.Object = runtime.RawExtension{Raw: raw}
	w.Calls++
	resp, err = val.Handle(context.Background(), req)
	if err != nil {
		return nil, kerrors.NewInternalError(fmt.Errorf("validating webhook: %w", err))
	}
	if !resp.Allowed {
		return nil, &kerrors.StatusError{ErrStatus: *resp.Result}
	}
	out := newObject(resource)
	if err := json.Unmarshal(raw, out); err != nil {
		return nil, kerrors.NewInternalError(err)
	}
	return out, nil
}
