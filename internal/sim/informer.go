package sim

import (
	"encoding/json"
	"sort"
	"time"

	"k8s.io/apimachinery/pkg/runtime"
	"k8s.io/client-go/tools/cache"
)

// Informer is a simulated shared index informer for one resource. Events
// pushed by the API wait in a FIFO until the explorer delivers them.
type Informer struct {
	Name     string // e.g. "ctrl/jobs"
	Resource string
	indexer  cache.Indexer
	handlers []cache.ResourceEventHandler
	pending  []Event
	// Fresh informers apply every event immediately (used for the webhook
	// process, whose caches are not part of the explored lag).
	Fresh bool
	// Delivered counts delivered events.
	Delivered int
	// LagHandlers marks handlers (by registration index) whose notifications are not
	// run at delivery but queued per listener, as the processListener goroutines of a
	// real shared informer allow: the cache is updated first, listeners run later.
	LagHandlers map[int]bool
	lpending    map[int][]Notification
	// Tombstones: deletions reach the handlers as cache.DeletedFinalStateUnknown (the watch was broken
	// and a relist noticed that the object is gone).
	Tombstones bool
	// pristine is the serialised form of every cached object as the informer stored it.
	pristine map[string][]byte
}

// Notification is one pending call of a lagging listener.
type Notification struct {
	Type      EventType
	Old, Obj  runtime.Object
	Tombstone bool
}

var _ cache.SharedIndexInformer = (*Informer)(nil)

// NewInformer returns an empty informer.
func NewInformer(name, resource string, fresh bool) *Informer {
	return &Informer{
		Name:     name,
		Resource: resource,
		Fresh:    fresh,
		indexer:  sortedIndexer{cache.NewIndexer(cache.MetaNamespaceKeyFunc, cache.Indexers{cache.NamespaceIndex: cache.MetaNamespaceIndexFunc})},
	}
}

func (i *Informer) push(ev Event) {
	i.pending = append(i.pending, ev)
	if i.Fresh {
		for i.Pending() > 0 {
			i.Deliver()
		}
	}
}

// Pending returns the number of undelivered events.
func (i *Informer) Pending() int { return len(i.pending) }

// PendingEvents returns the undelivered events.
func (i *Informer) PendingEvents() []Event { return i.pending }

// SortPendingTail sorts the last n pending events by key (used to remove the
// goroutine-order nondeterminism of concurrently issued deletes).
func (i *Informer) SortPendingTail(n int) {
	if n <= 1 || n > len(i.pending) {
		return
	}
	tail := i.pending[len(i.pending)-n:]
	for a := 1; a < len(tail); a++ {
		for b := a; b > 0 && tail[b-1].Key > tail[b].Key; b-- {
			tail[b-1], tail[b] = tail[b], tail[b-1]
		}
	}
}

// Deliver applies the head event to the cache and runs the handlers.
func (i *Informer) Deliver() bool {
	if len(i.pending) == 0 {
		return false
	}
	ev := i.pending[0]
	i.pending = i.pending[1:]
	i.Delivered++
	defer i.refreshPristine(ev.Key)
	switch ev.Type {
	case Added:
		if old, exists, _ := i.indexer.GetByKey(ev.Key); exists {
			_ = i.indexer.Update(ev.Obj)
			i.notify(Modified, old.(runtime.Object), ev.Obj)
			return true
		}
		_ = i.indexer.Add(ev.Obj)
		i.notify(Added, nil, ev.Obj)
	case Modified:
		old, exists, _ := i.indexer.GetByKey(ev.Key)
		if !exists {
			_ = i.indexer.Add(ev.Obj)
			i.notify(Added, nil, ev.Obj)
			return true
		}
		_ = i.indexer.Update(ev.Obj)
		i.notify(Modified, old.(runtime.Object), ev.Obj)
	case Deleted:
		old, exists, _ := i.indexer.GetByKey(ev.Key)
		if !exists {
			return true
		}
		_ = i.indexer.Delete(old)
		// Real informers hand the last known state of the object to OnDelete.
		i.notify(Deleted, nil, ev.Obj)
	}
	return true
}

func call(h cache.ResourceEventHandler, n Notification) {
	switch n.Type {
	case Added:
		h.OnAdd(n.Obj)
	case Modified:
		h.OnUpdate(n.Old, n.Obj)
	case Deleted:
		if n.Tombstone {
			// what a handler gets when the deletion was only noticed by a relist after a broken watch
			h.OnDelete(cache.DeletedFinalStateUnknown{Key: ObjKey(n.Obj), Obj: n.Obj})
			return
		}
		h.OnDelete(n.Obj)
	}
}

func (i *Informer) notify(t EventType, old, obj runtime.Object) {
	n := Notification{Type: t, Old: old, Obj: obj, Tombstone: t == Deleted && i.Tombstones}
	for idx, h := range i.handlers {
		if i.LagHandlers[idx] {
			if i.lpending == nil {
				i.lpending = map[int][]Notification{}
			}
			i.lpending[idx] = append(i.lpending[idx], n)
			continue
		}
		call(h, n)
	}
}

// LaggingListeners returns the indexes of lagging listeners with pending notifications, sorted.
func (i *Informer) LaggingListeners() []int {
	var out []int
	for idx, l := range i.lpending {
		if len(l) > 0 {
			out = append(out, idx)
		}
	}
	sort.Ints(out)
	return out
}

// ListenerPending returns the pending notifications of a lagging listener.
func (i *Informer) ListenerPending(idx int) []Notification { return i.lpending[idx] }

// DeliverListener runs the oldest pending notification of a lagging listener.
func (i *Informer) DeliverListener(idx int) bool {
	l := i.lpending[idx]
	if len(l) == 0 {
		return false
	}
	i.lpending[idx] = l[1:]
	call(i.handlers[idx], l[0])
	return true
}

// Resync notifies every handler with an update (old == new) for every cached object, as the
// periodic resync of a shared informer does. Lagging listeners get it queued like any event.
func (i *Informer) Resync() {
	for _, o := range i.indexer.List() {
		obj := o.(runtime.Object)
		i.notify(Modified, obj, obj)
	}
}

// SyncFrom fills the cache with an initial list (Add notifications), as an
// informer does on start.
func (i *Informer) SyncFrom(objs []runtime.Object) {
	for _, o := range objs {
		c := RoundTrip(i.Resource, o)
		_ = i.indexer.Add(c)
		i.refreshPristine(ObjKey(c))
		for _, h := range i.handlers {
			h.OnAdd(c)
		}
	}
}

// MutatedKeys lists cached objects that no longer equal what the informer put into its cache:
// somebody wrote into a shared cache object instead of a copy.
func (i *Informer) MutatedKeys() []string {
	var out []string
	for _, k := range i.indexer.ListKeys() {
		o, _, _ := i.indexer.GetByKey(k)
		b, _ := json.Marshal(o)
		if want, ok := i.pristine[k]; ok && string(want) != string(b) {
			out = append(out, k)
		}
	}
	sort.Strings(out)
	return out
}

// refreshPristine re-records one key after the informer itself changed it.
func (i *Informer) refreshPristine(key string) {
	if i.pristine == nil {
		i.pristine = map[string][]byte{}
	}
	o, exists, _ := i.indexer.GetByKey(key)
	if !exists {
		delete(i.pristine, key)
		return
	}
	b, _ := json.Marshal(o)
	i.pristine[key] = b
}

// notePristine records the serialised form of every cached object as delivered.
func (i *Informer) notePristine() {
	i.pristine = map[string][]byte{}
	for _, k := range i.indexer.ListKeys() {
		o, _, _ := i.indexer.GetByKey(k)
		b, _ := json.Marshal(o)
		i.pristine[k] = b
	}
}

// CacheDump returns the cached objects as JSON keyed by namespace/name.
func (i *Informer) CacheDump() map[string]json.RawMessage {
	out := map[string]json.RawMessage{}
	for _, k := range i.indexer.ListKeys() {
		o, _, _ := i.indexer.GetByKey(k)
		b, _ := json.Marshal(o)
		out[k] = b
	}
	return out
}

// ---- cache.SharedIndexInformer ----

func (i *Informer) AddEventHandler(handler cache.ResourceEventHandler) {
	i.handlers = append(i.handlers, handler)
	// Like a started shared informer, replay the current cache as Add notifications.
	for _, o := range i.indexer.List() {
		handler.OnAdd(o)
	}
}
func (i *Informer) AddEventHandlerWithResyncPeriod(handler cache.ResourceEventHandler, _ time.Duration) {
	i.AddEventHandler(handler)
}
func (i *Informer) GetStore() cache.Store                              { return i.indexer }
func (i *Informer) GetController() cache.Controller                    { return nil }
func (i *Informer) Run(stopCh <-chan struct{})                         {}
func (i *Informer) HasSynced() bool                                    { return true }
func (i *Informer) LastSyncResourceVersion() string                    { return "" }
func (i *Informer) SetWatchErrorHandler(cache.WatchErrorHandler) error { return nil }
func (i *Informer) AddIndexers(indexers cache.Indexers) error          { return i.indexer.AddIndexers(indexers) }
func (i *Informer) GetIndexer() cache.Indexer                          { return i.indexer }

// InformerSnapshot captures cache content and pending events.
type InformerSnapshot struct {
	cache    []interface{}
	pending  []Event
	lpending map[int][]Notification
	pristine map[string][]byte
}

// Snapshot captures the informer state (objects are shared, never mutated).
func (i *Informer) Snapshot() *InformerSnapshot {
	s := &InformerSnapshot{cache: i.indexer.List(), pending: append([]Event(nil), i.pending...), lpending: map[int][]Notification{}}
	for k, v := range i.lpending {
		s.lpending[k] = append([]Notification(nil), v...)
	}
	s.pristine = map[string][]byte{}
	for k, v := range i.pristine {
		s.pristine[k] = v
	}
	return s
}

// Restore resets the informer to a snapshot without notifying handlers.
func (i *Informer) Restore(s *InformerSnapshot) {
	_ = i.indexer.Replace(s.cache, "")
	i.pristine = map[string][]byte{}
	for k, v := range s.pristine {
		i.pristine[k] = v
	}
	i.pending = append([]Event(nil), s.pending...)
	i.lpending = map[int][]Notification{}
	for k, v := range s.lpending {
		i.lpending[k] = append([]Notification(nil), v...)
	}
}

// sortedIndexer fixes the order in which listers return objects (the real
// indexer iterates Go maps). Lister order is thereby owned by the harness: it is
// always sorted by namespace/name; order-dependence of callers is not explored.
type sortedIndexer struct{ cache.Indexer }

func sortObjs(in []interface{}) []interface{} {
	sort.SliceStable(in, func(i, j int) bool {
		a, _ := cache.MetaNamespaceKeyFunc(in[i])
		b, _ := cache.MetaNamespaceKeyFunc(in[j])
		return a < b
	})
	return in
}

func (s sortedIndexer) List() []interface{} { return sortObjs(s.Indexer.List()) }
func (s sortedIndexer) ListKeys() []string {
	k := s.Indexer.ListKeys()
	sort.Strings(k)
	return k
}
func (s sortedIndexer) Index(indexName string, obj interface{}) ([]interface{}, error) {
	out, err := s.Indexer.Index(indexName, obj)
	return sortObjs(out), err
}
func (s sortedIndexer) ByIndex(indexName, indexedValue string) ([]interface{}, error) {
	out, err := s.Indexer.ByIndex(indexName, indexedValue)
	return sortObjs(out), err
}
