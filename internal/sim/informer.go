package sim

import (
	"encoding/json"
	"sort"
	"time"

	"k8s.io/apimachinery/pkg/runtime"
	"k8s.io/client-go/tools/cache"
)

// Informer is a simulated shared index informer for one resource. Events
// pushed by the API wait in a FIFO until the explorer delivers them.
type Informer struct {
	Name     string // e.g. "ctrl/jobs"
	Resource string
	indexer  cache.Indexer
	handlers []cache.ResourceEventHandler
	pending  []Event
	// Fresh informers apply every event immediately (used for the webhook
	// process, whose caches are not part of the explored lag).
	Fresh bool
	// Delivered counts delivered events.
	Delivered int
}

var _ cache.SharedIndexInformer = (*Informer)(nil)

// NewInformer returns an empty informer.
func NewInformer(name, resource string, fresh bool) *Informer {
	return &Informer{
		Name:     name,
		Resource: resource,
		Fresh:    fresh,
		indexer:  sortedIndexer{cache.NewIndexer(cache.MetaNamespaceKeyFunc, cache.Indexers{cache.NamespaceIndex: cache.MetaNamespaceIndexFunc})},
	}
}

func (i *Informer) push(ev Event) {
	i.pending = append(i.pending, ev)
	if i.Fresh {
		for i.Pending() > 0 {
			i.Deliver()
		}
	}
}

// Pending returns the number of undelivered events.
func (i *Informer) Pending() int { return len(i.pending) }

// PendingEvents returns the undelivered events.
func (i *Informer) PendingEvents() []Event { return i.pending }

// SortPendingTail sorts the last n pending events by key (used to remove the
// goroutine-order nondeterminism of concurrently issued deletes).
func (i *Informer) SortPendingTail(n int) {
	if n <= 1 || n > len(i.pending) {
		return
	}
	tail := i.pending[len(i.pending)-n:]
	for a := 1; a < len(tail); a++ {
		for b := a; b > 0 && tail[b-1].Key > tail[b].Key; b-- {
			tail[b-1], tail[b] = tail[b], tail[b-1]
		}
	}
}

// Deliver applies the head event to the cache and runs the handlers.
func (i *Informer) Deliver() bool {
	if len(i.pending) == 0 {
		return false
	}
	ev := i.pending[0]
	i.pending = i.pending[1:]
	i.Delivered++
	switch ev.Type {
	case Added:
		if old, exists, _ := i.indexer.GetByKey(ev.Key); exists {
			_ = i.indexer.Update(ev.Obj)
			for _, h := range i.handlers {
				h.OnUpdate(old, ev.Obj)
			}
			return true
		}
		_ = i.indexer.Add(ev.Obj)
		for _, h := range i.handlers {
			h.OnAdd(ev.Obj)
		}
	case Modified:
		old, exists, _ := i.indexer.GetByKey(ev.Key)
		if !exists {
			_ = i.indexer.Add(ev.Obj)
			for _, h := range i.handlers {
				h.OnAdd(ev.Obj)
			}
			return true
		}
		_ = i.indexer.Update(ev.Obj)
		for _, h := range i.handlers {
			h.OnUpdate(old, ev.Obj)
		}
	case Deleted:
		old, exists, _ := i.indexer.GetByKey(ev.Key)
		if !exists {
			return true
		}
		_ = i.indexer.Delete(old)
		for _, h := range i.handlers {
			// Real informers hand the last known state of the object to OnDelete.
			h.OnDelete(ev.Obj)
		}
	}
	return true
}

// SyncFrom fills the cache with an initial list (Add notifications), as an
// informer does on start.
func (i *Informer) SyncFrom(objs []runtime.Object) {
	for _, o := range objs {
		c := RoundTrip(i.Resource, o)
		_ = i.indexer.Add(c)
		for _, h := range i.handlers {
			h.OnAdd(c)
		}
	}
}

// CacheDump returns the cached objects as JSON keyed by namespace/name.
func (i *Informer) CacheDump() map[string]json.RawMessage {
	out := map[string]json.RawMessage{}
	for _, k := range i.indexer.ListKeys() {
		o, _, _ := i.indexer.GetByKey(k)
		b, _ := json.Marshal(o)
		out[k] = b
	}
	return out
}

// ---- cache.SharedIndexInformer ----

func (i *Informer) AddEventHandler(handler cache.ResourceEventHandler) {
	i.handlers = append(i.handlers, handler)
	// Like a started shared informer, replay the current cache as Add notifications.
	for _, o := range i.indexer.List() {
		handler.OnAdd(o)
	}
}
func (i *Informer) AddEventHandlerWithResyncPeriod(handler cache.ResourceEventHandler, _ time.Duration) {
	i.AddEventHandler(handler)
}
func (i *Informer) GetStore() cache.Store                              { return i.indexer }
func (i *Informer) GetController() cache.Controller                    { return nil }
func (i *Informer) Run(stopCh <-chan struct{})                         {}
func (i *Informer) HasSynced() bool                                    { return true }
func (i *Informer) LastSyncResourceVersion() string                    { return "" }
func (i *Informer) SetWatchErrorHandler(cache.WatchErrorHandler) error { return nil }
func (i *Informer) AddIndexers(indexers cache.Indexers) error          { return i.indexer.AddIndexers(indexers) }
func (i *Informer) GetIndexer() cache.Indexer                          { return i.indexer }

// InformerSnapshot captures cache content and pending events.
type InformerSnapshot struct {
	cache   []interface{}
	pending []Event
}

// Snapshot captures the informer state (objects are shared, never mutated).
func (i *Informer) Snapshot() *InformerSnapshot {
	return &InformerSnapshot{cache: i.indexer.List(), pending: append([]Event(nil), i.pending...)}
}

// Restore resets the informer to a snapshot without notifying handlers.
func (i *Informer) Restore(s *InformerSnapshot) {
	_ = i.indexer.Replace(s.cache, "")
	i.pending = append([]Event(nil), s.pending...)
}

// sortedIndexer fixes the order in which listers return objects (the real
// indexer iterates Go maps). Lister order is thereby owned by the harness: it is
// always sorted by namespace/name; order-dependence of callers is not explored.
type sortedIndexer struct{ cache.Indexer }

func sortObjs(in []interface{}) []interface{} {
	sort.SliceStable(in, func(i, j int) bool {
		a, _ := cache.MetaNamespaceKeyFunc(in[i])
		b, _ := cache.MetaNamespaceKeyFunc(in[j])
		return a < b
	})
	return in
}

func (s sortedIndexer) List() []interface{} { return sortObjs(s.Indexer.List()) }
func (s sortedIndexer) ListKeys() []string {
	k := s.Indexer.ListKeys()
	sort.Strings(k)
	return k
}
func (s sortedIndexer) Index(indexName string, obj interface{}) ([]interface{}, error) {
	out, err := s.Indexer.Index(indexName, obj)
	return sortObjs(out), err
}
func (s sortedIndexer) ByIndex(indexName, indexedValue string) ([]interface{}, error) {
	out, err := s.Indexer.ByIndex(indexName, indexedValue)
	return sortObjs(out), err
}
