// Package sim is the closed environment of the model checker: a simulated API
// server (API), simulated informers (Informer), a deterministic work queue
// (Queue) and a controllercontext.Context wiring real furiko code to them.
package sim

import (
	"encoding/json"
	"fmt"
	"sort"
	"strconv"
	"strings"
	"sync"
	"time"

	corev1 "k8s.io/api/core/v1"
	kerrors "k8s.io/apimachinery/pkg/api/errors"
	"k8s.io/apimachinery/pkg/api/meta"
	metav1 "k8s.io/apimachinery/pkg/apis/meta/v1"
	"k8s.io/apimachinery/pkg/runtime"
	"k8s.io/apimachinery/pkg/runtime/schema"
	"k8s.io/apimachinery/pkg/types"
	fakeclock "k8s.io/utils/clock/testing"

	execution "github.com/furiko-io/furiko/apis/execution/v1alpha1"
)

// Resource names.
const (
	Jobs       = "jobs"
	JobConfigs = "jobconfigs"
	Pods       = "pods"
)

// Epoch is the start of simulated time. It lies in the real future on purpose
// (see DESIGN.md 2.1, "the one real-clock leak").
var Epoch = time.Date(2060, 1, 1, 0, 0, 0, 0, time.UTC)

var groupResources = map[string]schema.GroupResource{
	Jobs:       {Group: "execution.furiko.io", Resource: Jobs},
	JobConfigs: {Group: "execution.furiko.io", Resource: JobConfigs},
	Pods:       {Group: "", Resource: Pods},
}

func newObject(resource string) runtime.Object {
	switch resource {
	case Jobs:
		return &execution.Job{}
	case JobConfigs:
		return &execution.JobConfig{}
	case Pods:
		return &corev1.Pod{}
	}
	panic("unknown resource " + resource)
}

// RoundTrip returns a deep copy of obj as a real API write would store it
// (JSON encoding: second granularity of metav1.Time, omitempty normalisation).
func RoundTrip(resource string, obj runtime.Object) runtime.Object {
	b, err := json.Marshal(obj)
	if err != nil {
		panic(err)
	}
	out := newObject(resource)
	if err := json.Unmarshal(b, out); err != nil {
		panic(err)
	}
	return out
}

// EventType of a watch event.
type EventType string

const (
	Added    EventType = "ADDED"
	Modified EventType = "MODIFIED"
	Deleted  EventType = "DELETED"
)

// Event is one watch event.
type Event struct {
	Type     EventType
	Resource string
	Key      string
	Obj      runtime.Object
}

// Call is one API call issued through the clientsets.
type Call struct {
	Verb        string `json:"verb"`
	Resource    string `json:"resource"`
	Name        string `json:"name"`
	Subresource string `json:"sub,omitempty"`
	// ID identifies the call inside its step: verb/resource/name/sub#occurrence.
	ID      string `json:"id"`
	Outcome string `json:"outcome"` // ok | err:<reason> | fault:<kind>
	Force   bool   `json:"force,omitempty"`
}

// Write describes one applied write, handed to monitors.
type Write struct {
	Verb        string // create | update | delete(removed) | markdelete
	Resource    string
	Subresource string
	Key         string
	Old, New    runtime.Object // Old nil on create; New nil on removal
	Actor       string         // "ctrl" for clientset calls, "env" for environment transitions
	Force       bool           // delete with grace period 0
	Now         time.Time
}

// FaultKind of an injected fault.
type FaultKind string

const (
	FaultNone     FaultKind = ""
	FaultError    FaultKind = "err"      // InternalError, not applied
	FaultConflict FaultKind = "conflict" // Conflict, not applied
	FaultTimeout  FaultKind = "timeout"  // applied, caller sees a Timeout error
	FaultCrash    FaultKind = "crash"    // this and every later call of the step fail, not applied
	FaultExists   FaultKind = "exists"   // AlreadyExists on create, not applied (lost race)
)

// Admission mutates/validates an object on create or update. It returns the
// object to store or an API error.
type Admission func(resource string, op string, old, obj runtime.Object) (runtime.Object, error)

// API is the simulated API server.
type API struct {
	mu    sync.Mutex
	Clock *fakeclock.FakeClock

	objs map[string]map[string]runtime.Object
	rv   int64
	inc  map[string]int

	watchers map[string][]*Informer

	// per-step call log and fault plan
	calls     []Call
	callCount map[string]int
	Faults    map[string]FaultKind
	crashed   bool
	// FaultsApplied counts injected faults that actually matched a call.
	FaultsApplied int

	// GlobalCalls counts clientset calls over the whole execution; GlobalFaults
	// injects faults by that ordinal (deviation-bounded end-to-end exploration).
	GlobalCalls  int
	GlobalFaults map[int]FaultKind

	Admit    Admission
	OnWrite  func(w Write)
	OnCall   func(c Call)
	WriteLog int // number of applied writes so far
}

// NewAPI returns an empty API server at Epoch.
func NewAPI(clock *fakeclock.FakeClock) *API {
	return &API{
		Clock:     clock,
		objs:      map[string]map[string]runtime.Object{Jobs: {}, JobConfigs: {}, Pods: {}},
		inc:       map[string]int{},
		watchers:  map[string][]*Informer{},
		callCount: map[string]int{},
	}
}

// Key returns namespace/name.
func Key(namespace, name string) string { return namespace + "/" + name }

func accessor(obj runtime.Object) metav1.Object {
	a, err := meta.Accessor(obj)
	if err != nil {
		panic(err)
	}
	return a
}

// ObjKey returns the namespace/name key of obj.
func ObjKey(obj runtime.Object) string {
	a := accessor(obj)
	return Key(a.GetNamespace(), a.GetName())
}

// Watch registers an informer to receive events for its resource.
func (a *API) Watch(inf *Informer) {
	a.watchers[inf.Resource] = append(a.watchers[inf.Resource], inf)
}

// Version returns the store's revision counter (it moves exactly when a write changes something).
func (a *API) Version() int64 { return a.rv }

// ResetWatchers drops all registered informers (controller restart).
func (a *API) ResetWatchers(keep func(*Informer) bool) {
	for r, list := range a.watchers {
		var out []*Informer
		for _, inf := range list {
			if keep != nil && keep(inf) {
				out = append(out, inf)
			}
		}
		a.watchers[r] = out
	}
}

func (a *API) emit(t EventType, resource string, obj runtime.Object) {
	for _, inf := range a.watchers[resource] {
		inf.push(Event{Type: t, Resource: resource, Key: ObjKey(obj), Obj: RoundTrip(resource, obj)})
	}
}

func (a *API) nextRV() string {
	a.rv++
	return strconv.FormatInt(a.rv, 10)
}

// BeginStep clears the per-step call log and installs the fault plan.
func (a *API) BeginStep(faults map[string]FaultKind) {
	a.mu.Lock()
	defer a.mu.Unlock()
	a.calls = nil
	a.callCount = map[string]int{}
	a.Faults = faults
	a.crashed = false
}

// Calls returns the calls of the current step, sorted by ID for determinism
// (concurrent deletes of one step may be issued in any order).
func (a *API) Calls() []Call {
	a.mu.Lock()
	defer a.mu.Unlock()
	out := append([]Call(nil), a.calls...)
	return out
}

// Crashed reports whether a crash fault fired in the current step.
func (a *API) Crashed() bool {
	a.mu.Lock()
	defer a.mu.Unlock()
	return a.crashed
}

// List returns all objects of a resource sorted by key.
func (a *API) List(resource string) []runtime.Object {
	// Readers take no lock: they run either between steps or inside OnWrite
	// (which is called with the lock held by the writing goroutine).
	return a.listLocked(resource)
}

func (a *API) listLocked(resource string) []runtime.Object {
	keys := make([]string, 0, len(a.objs[resource]))
	for k := range a.objs[resource] {
		keys = append(keys, k)
	}
	sort.Strings(keys)
	out := make([]runtime.Object, 0, len(keys))
	for _, k := range keys {
		out = append(out, a.objs[resource][k])
	}
	return out
}

// Get returns the stored object (not a copy; callers must not mutate) or nil.
func (a *API) Get(resource, key string) runtime.Object {
	return a.objs[resource][key]
}

// Job / JobConfig / Pod typed getters (nil if absent).
func (a *API) Job(key string) *execution.Job {
	if o := a.Get(Jobs, key); o != nil {
		return o.(*execution.Job)
	}
	return nil
}
func (a *API) JobConfig(key string) *execution.JobConfig {
	if o := a.Get(JobConfigs, key); o != nil {
		return o.(*execution.JobConfig)
	}
	return nil
}
func (a *API) Pod(key string) *corev1.Pod {
	if o := a.Get(Pods, key); o != nil {
		return o.(*corev1.Pod)
	}
	return nil
}

func (a *API) write(w Write) {
	a.WriteLog++
	w.Now = a.Clock.Now()
	if a.OnWrite != nil {
		a.OnWrite(w)
	}
}

// ---- verbs. actor is "ctrl" or "env". ----

func (a *API) now() metav1.Time {
	return metav1.NewTime(a.Clock.Now().Truncate(time.Second))
}

// Create stores a new object.
func (a *API) Create(actor, resource string, in runtime.Object) (runtime.Object, error) {
	a.mu.Lock()
	defer a.mu.Unlock()
	return a.createLocked(actor, resource, in)
}

func (a *API) createLocked(actor, resource string, in runtime.Object) (runtime.Object, error) {
	obj := RoundTrip(resource, in)
	acc := accessor(obj)
	if acc.GetNamespace() == "" {
		acc.SetNamespace("default")
	}
	key := ObjKey(obj)
	gr := groupResources[resource]
	if acc.GetName() == "" {
		return nil, kerrors.NewBadRequest("name is required")
	}
	if _, ok := a.objs[resource][key]; ok {
		return nil, kerrors.NewAlreadyExists(gr, acc.GetName())
	}
	if a.Admit != nil && actor != "seed" {
		mutated, err := a.Admit(resource, "CREATE", nil, obj)
		if err != nil {
			return nil, err
		}
		obj = RoundTrip(resource, mutated)
		acc = accessor(obj)
	}
	a.inc[resource+"/"+key]++
	acc.SetUID(types.UID(fmt.Sprintf("uid-%s-%s-%d", resource, acc.GetName(), a.inc[resource+"/"+key])))
	acc.SetResourceVersion(a.nextRV())
	acc.SetCreationTimestamp(a.now())
	acc.SetGeneration(1)
	acc.SetDeletionTimestamp(nil)
	// Status is never accepted on create for resources with a status subresource.
	switch o := obj.(type) {
	case *execution.Job:
		if actor == "ctrl" {
			o.Status = execution.JobStatus{}
		}
	case *execution.JobConfig:
		if actor == "ctrl" {
			o.Status = execution.JobConfigStatus{}
		}
	}
	obj = RoundTrip(resource, obj)
	a.objs[resource][key] = obj
	a.write(Write{Verb: "create", Resource: resource, Key: key, New: obj, Actor: actor})
	a.emit(Added, resource, obj)
	return RoundTrip(resource, obj), nil
}

// Update replaces an object (sub "" = main resource: status ignored for
// Jobs/JobConfigs; sub "status": only status taken).
func (a *API) Update(actor, resource, sub string, in runtime.Object) (runtime.Object, error) {
	a.mu.Lock()
	defer a.mu.Unlock()
	return a.updateLocked(actor, resource, sub, in)
}

func (a *API) updateLocked(actor, resource, sub string, in runtime.Object) (runtime.Object, error) {
	obj := RoundTrip(resource, in)
	acc := accessor(obj)
	key := ObjKey(obj)
	gr := groupResources[resource]
	old, ok := a.objs[resource][key]
	if !ok {
		return nil, kerrors.NewNotFound(gr, acc.GetName())
	}
	oldAcc := accessor(old)
	if acc.GetUID() != "" && acc.GetUID() != oldAcc.GetUID() {
		return nil, kerrors.NewConflict(gr, acc.GetName(),
			fmt.Errorf("Precondition failed: UID in precondition: %v, UID in object meta: %v", acc.GetUID(), oldAcc.GetUID()))
	}
	if rv := acc.GetResourceVersion(); rv != "" && rv != oldAcc.GetResourceVersion() {
		return nil, kerrors.NewConflict(gr, acc.GetName(),
			fmt.Errorf("the object has been modified; please apply your changes to the latest version and try again"))
	}
	// Subresource split.
	var merged runtime.Object
	switch resource {
	case Jobs:
		o, n := old.(*execution.Job), obj.(*execution.Job)
		if sub == "status" {
			m := o.DeepCopy()
			m.Status = n.Status
			merged = m
		} else {
			m := n.DeepCopy()
			m.Status = o.Status
			merged = m
		}
	case JobConfigs:
		o, n := old.(*execution.JobConfig), obj.(*execution.JobConfig)
		if sub == "status" {
			m := o.DeepCopy()
			m.Status = n.Status
			merged = m
		} else {
			m := n.DeepCopy()
			m.Status = o.Status
			merged = m
		}
	default:
		merged = obj
	}
	// Immutable metadata.
	macc := accessor(merged)
	macc.SetUID(oldAcc.GetUID())
	macc.SetCreationTimestamp(oldAcc.GetCreationTimestamp())
	macc.SetDeletionTimestamp(oldAcc.GetDeletionTimestamp())
	macc.SetDeletionGracePeriodSeconds(oldAcc.GetDeletionGracePeriodSeconds())
	macc.SetGeneration(oldAcc.GetGeneration())
	if a.Admit != nil && sub == "" && actor != "seed" {
		mutated, err := a.Admit(resource, "UPDATE", old, merged)
		if err != nil {
			return nil, err
		}
		merged = RoundTrip(resource, mutated)
		macc = accessor(merged)
	}
	// No-op updates do not bump the resourceVersion nor emit an event.
	macc.SetResourceVersion(oldAcc.GetResourceVersion())
	merged = RoundTrip(resource, merged)
	if jsonEqual(old, merged) {
		return RoundTrip(resource, old), nil
	}
	macc = accessor(merged)
	// A deleting object whose last finalizer is removed disappears.
	if macc.GetDeletionTimestamp() != nil && len(macc.GetFinalizers()) == 0 {
		macc.SetResourceVersion(a.nextRV())
		delete(a.objs[resource], key)
		a.write(Write{Verb: "delete", Resource: resource, Subresource: sub, Key: key, Old: old, Actor: actor})
		a.emit(Deleted, resource, merged)
		return RoundTrip(resource, merged), nil
	}
	macc.SetResourceVersion(a.nextRV())
	a.objs[resource][key] = merged
	a.write(Write{Verb: "update", Resource: resource, Subresource: sub, Key: key, Old: old, New: merged, Actor: actor})
	a.emit(Modified, resource, merged)
	return RoundTrip(resource, merged), nil
}

func jsonEqual(a, b runtime.Object) bool {
	x, _ := json.Marshal(a)
	y, _ := json.Marshal(b)
	return string(x) == string(y)
}

// Delete removes an object, honouring finalizers and Pod graceful deletion.
// grace < 0 means "not specified".
func (a *API) Delete(actor, resource, key string, grace int64) error {
	a.mu.Lock()
	defer a.mu.Unlock()
	return a.deleteLocked(actor, resource, key, grace)
}

func (a *API) deleteLocked(actor, resource, key string, grace int64) error {
	gr := groupResources[resource]
	old, ok := a.objs[resource][key]
	if !ok {
		_, name, _ := strings.Cut(key, "/")
		return kerrors.NewNotFound(gr, name)
	}
	oldAcc := accessor(old)
	force := grace == 0
	remove := func() {
		gone := RoundTrip(resource, old)
		accessor(gone).SetResourceVersion(a.nextRV())
		delete(a.objs[resource], key)
		a.write(Write{Verb: "delete", Resource: resource, Key: key, Old: old, Actor: actor, Force: force})
		a.emit(Deleted, resource, gone)
	}
	if resource == Pods {
		pod := old.(*corev1.Pod)
		period := int64(30)
		if pod.Spec.TerminationGracePeriodSeconds != nil {
			period = *pod.Spec.TerminationGracePeriodSeconds
		}
		if grace >= 0 {
			period = grace
		}
		// Unscheduled or already terminated pods are deleted immediately.
		if pod.Spec.NodeName == "" || pod.Status.Phase == corev1.PodSucceeded || pod.Status.Phase == corev1.PodFailed {
			period = 0
		}
		if period == 0 {
			remove()
			return nil
		}
		newTS := metav1.NewTime(a.now().Add(time.Duration(period) * time.Second))
		if ts := pod.DeletionTimestamp; ts != nil && !newTS.Before(ts) {
			// Already terminating with an earlier or equal deadline: no change.
			a.write(Write{Verb: "markdelete-noop", Resource: resource, Key: key, Old: old, New: old, Actor: actor})
			return nil
		}
		upd := pod.DeepCopy()
		upd.DeletionTimestamp = &newTS
		upd.DeletionGracePeriodSeconds = &period
		upd.ResourceVersion = a.nextRV()
		stored := RoundTrip(resource, upd)
		a.objs[resource][key] = stored
		a.write(Write{Verb: "markdelete", Resource: resource, Key: key, Old: old, New: stored, Actor: actor})
		a.emit(Modified, resource, stored)
		return nil
	}
	if len(oldAcc.GetFinalizers()) > 0 {
		if oldAcc.GetDeletionTimestamp() != nil {
			return nil
		}
		upd := RoundTrip(resource, old)
		uacc := accessor(upd)
		now := a.now()
		uacc.SetDeletionTimestamp(&now)
		zero := int64(0)
		uacc.SetDeletionGracePeriodSeconds(&zero)
		uacc.SetResourceVersion(a.nextRV())
		upd = RoundTrip(resource, upd)
		a.objs[resource][key] = upd
		a.write(Write{Verb: "markdelete", Resource: resource, Key: key, Old: old, New: upd, Actor: actor})
		a.emit(Modified, resource, upd)
		return nil
	}
	remove()
	return nil
}

// EnvMutate applies fn to a copy of the stored object and stores the result
// unconditionally (environment transitions: kubelet status, user edits that
// bypass optimistic concurrency). Admission is not run; use Update for user
// edits that must pass the webhooks.
func (a *API) EnvMutate(resource, key string, fn func(obj runtime.Object)) bool {
	a.mu.Lock()
	defer a.mu.Unlock()
	old, ok := a.objs[resource][key]
	if !ok {
		return false
	}
	upd := RoundTrip(resource, old)
	fn(upd)
	accessor(upd).SetResourceVersion(accessor(old).GetResourceVersion())
	upd = RoundTrip(resource, upd)
	if jsonEqual(old, upd) {
		return false
	}
	accessor(upd).SetResourceVersion(a.nextRV())
	a.objs[resource][key] = upd
	a.write(Write{Verb: "update", Resource: resource, Subresource: "env", Key: key, Old: old, New: upd, Actor: "env"})
	a.emit(Modified, resource, upd)
	return true
}

// EnvRemove removes an object unconditionally (kubelet finished terminating a
// pod, external deletion ignoring finalizers is NOT modelled for Jobs).
func (a *API) EnvRemove(resource, key string) bool {
	a.mu.Lock()
	defer a.mu.Unlock()
	old, ok := a.objs[resource][key]
	if !ok {
		return false
	}
	gone := RoundTrip(resource, old)
	accessor(gone).SetResourceVersion(a.nextRV())
	delete(a.objs[resource], key)
	a.write(Write{Verb: "delete", Resource: resource, Key: key, Old: old, Actor: "env"})
	a.emit(Deleted, resource, gone)
	return true
}

// ---- call log and fault injection (used by the clientset reactor) ----

// beginCall records a call and returns the fault to inject, if any.
func (a *API) beginCall(verb, resource, name, sub string, force bool) (int, FaultKind) {
	base := verb + "/" + resource + "/" + name
	if sub != "" {
		base += "/" + sub
	}
	a.callCount[base]++
	id := fmt.Sprintf("%s#%d", base, a.callCount[base])
	c := Call{Verb: verb, Resource: resource, Name: name, Subresource: sub, ID: id, Outcome: "ok", Force: force}
	a.calls = append(a.calls, c)
	idx := len(a.calls) - 1
	ord := a.GlobalCalls
	a.GlobalCalls++
	if a.crashed {
		a.calls[idx].Outcome = "fault:crashed"
		return idx, FaultCrash
	}
	if k, ok := a.GlobalFaults[ord]; ok {
		a.FaultsApplied++
		a.calls[idx].Outcome = "fault:" + string(k)
		if k == FaultCrash {
			a.crashed = true
		}
		return idx, k
	}
	if k, ok := a.Faults[id]; ok {
		a.FaultsApplied++
		a.calls[idx].Outcome = "fault:" + string(k)
		if k == FaultCrash {
			a.crashed = true
		}
		return idx, k
	}
	return idx, FaultNone
}

func (a *API) endCall(idx int, err error) {
	if err != nil && a.calls[idx].Outcome == "ok" {
		a.calls[idx].Outcome = "err:" + string(kerrors.ReasonForError(err))
	}
	if a.OnCall != nil {
		a.OnCall(a.calls[idx])
	}
}

func faultError(kind FaultKind, resource, name string) error {
	gr := groupResources[resource]
	switch kind {
	case FaultConflict:
		return kerrors.NewConflict(gr, name, fmt.Errorf("injected conflict"))
	case FaultTimeout:
		return kerrors.NewTimeoutError("injected timeout (request was applied)", 1)
	case FaultExists:
		return kerrors.NewAlreadyExists(gr, name)
	default:
		return kerrors.NewInternalError(fmt.Errorf("injected %s", kind))
	}
}

// Dump returns every stored object as canonical JSON keyed by resource/key.
func (a *API) Dump() map[string]json.RawMessage {
	out := map[string]json.RawMessage{}
	for r, m := range a.objs {
		for k, o := range m {
			b, _ := json.Marshal(o)
			out[r+"/"+k] = b
		}
	}
	return out
}

func notFound(resource, name string) error {
	return kerrors.NewNotFound(groupResources[resource], name)
}

// APISnapshot is a copy-on-write snapshot of the API content. Stored objects
// are immutable (every write stores a fresh copy), so maps are copied shallowly.
type APISnapshot struct {
	objs map[string]map[string]runtime.Object
	rv   int64
	inc  map[string]int
}

// Snapshot captures the API content.
func (a *API) Snapshot() *APISnapshot {
	s := &APISnapshot{objs: map[string]map[string]runtime.Object{}, rv: a.rv, inc: map[string]int{}}
	for r, m := range a.objs {
		c := make(map[string]runtime.Object, len(m))
		for k, v := range m {
			c[k] = v
		}
		s.objs[r] = c
	}
	for k, v := range a.inc {
		s.inc[k] = v
	}
	return s
}

// Restore resets the API content to a snapshot.
func (a *API) Restore(s *APISnapshot) {
	a.objs = map[string]map[string]runtime.Object{}
	for r, m := range s.objs {
		c := make(map[string]runtime.Object, len(m))
		for k, v := range m {
			c[k] = v
		}
		a.objs[r] = c
	}
	a.rv = s.rv
	a.inc = map[string]int{}
	for k, v := range s.inc {
		a.inc[k] = v
	}
	a.calls = nil
	a.callCount = map[string]int{}
	a.Faults = nil
	a.crashed = false
}
