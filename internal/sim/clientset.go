package sim

import (
	kerrors "k8s.io/apimachinery/pkg/api/errors"
	"k8s.io/apimachinery/pkg/runtime"
	k8sfake "k8s.io/client-go/kubernetes/fake"
	clienttesting "k8s.io/client-go/testing"

	furikofake "github.com/furiko-io/furiko/pkg/generated/clientset/versioned/fake"
)

// InstallReactors routes every call of the fake clientsets to the API.
func (a *API) InstallReactors(k8s *k8sfake.Clientset, furiko *furikofake.Clientset) {
	k8s.PrependReactor("*", "*", a.react)
	furiko.PrependReactor("*", "*", a.react)
}

func (a *API) react(action clienttesting.Action) (bool, runtime.Object, error) {
	resource := action.GetResource().Resource
	switch resource {
	case Jobs, JobConfigs, Pods:
	default:
		// Events and anything else: swallow.
		return true, nil, nil
	}
	ns := action.GetNamespace()
	a.mu.Lock()
	defer a.mu.Unlock()
	switch action.GetVerb() {
	case "create":
		act := action.(clienttesting.CreateAction)
		obj := act.GetObject()
		name := accessor(obj).GetName()
		idx, fault := a.beginCall("create", resource, name, "", false)
		var out runtime.Object
		var err error
		switch fault {
		case FaultNone:
			accessor(obj).SetNamespace(ns)
			out, err = a.createLocked("ctrl", resource, obj)
		case FaultTimeout:
			accessor(obj).SetNamespace(ns)
			if _, err = a.createLocked("ctrl", resource, obj); err == nil {
				err = faultError(fault, resource, name)
			} else {
				a.calls[idx].Outcome = "err:" + string(kerrors.ReasonForError(err))
			}
		default:
			err = faultError(fault, resource, name)
		}
		a.endCall(idx, err)
		if err != nil {
			return true, nil, err
		}
		return true, out, nil
	case "update":
		act := action.(clienttesting.UpdateAction)
		obj := act.GetObject()
		name := accessor(obj).GetName()
		sub := act.GetSubresource()
		idx, fault := a.beginCall("update", resource, name, sub, false)
		var out runtime.Object
		var err error
		switch fault {
		case FaultNone:
			out, err = a.updateLocked("ctrl", resource, sub, obj)
		case FaultTimeout:
			if _, err = a.updateLocked("ctrl", resource, sub, obj); err == nil {
				err = faultError(fault, resource, name)
			} else {
				a.calls[idx].Outcome = "err:" + string(kerrors.ReasonForError(err))
			}
		default:
			err = faultError(fault, resource, name)
		}
		a.endCall(idx, err)
		if err != nil {
			return true, nil, err
		}
		return true, out, nil
	case "delete":
		act := action.(clienttesting.DeleteActionImpl)
		name := act.GetName()
		grace := int64(-1)
		if g := act.DeleteOptions.GracePeriodSeconds; g != nil {
			grace = *g
		}
		idx, fault := a.beginCall("delete", resource, name, "", grace == 0)
		var err error
		switch fault {
		case FaultNone:
			err = a.deleteLocked("ctrl", resource, Key(ns, name), grace)
		case FaultTimeout:
			if err = a.deleteLocked("ctrl", resource, Key(ns, name), grace); err == nil {
				err = faultError(fault, resource, name)
			} else {
				a.calls[idx].Outcome = "err:" + string(kerrors.ReasonForError(err))
			}
		default:
			err = faultError(fault, resource, name)
		}
		a.endCall(idx, err)
		return true, nil, err
	case "get":
		act := action.(clienttesting.GetAction)
		name := act.GetName()
		obj, ok := a.objs[resource][Key(ns, name)]
		if !ok {
			return true, nil, notFound(resource, name)
		}
		return true, RoundTrip(resource, obj), nil
	}
	panic("sim: unsupported API action " + action.GetVerb() + " " + resource)
}
