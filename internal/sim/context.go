package sim

import (
	"context"

	k8sinformers "k8s.io/client-go/informers"
	k8score "k8s.io/client-go/informers/core"
	k8scorev1 "k8s.io/client-go/informers/core/v1"
	corelisters "k8s.io/client-go/listers/core/v1"
	"k8s.io/client-go/tools/cache"
	fakeclock "k8s.io/utils/clock/testing"

	configv1alpha1 "github.com/furiko-io/furiko/apis/config/v1alpha1"
	furikoinformers "github.com/furiko-io/furiko/pkg/generated/informers/externalversions"
	furikoexec "github.com/furiko-io/furiko/pkg/generated/informers/externalversions/execution"
	furikoexecv1 "github.com/furiko-io/furiko/pkg/generated/informers/externalversions/execution/v1alpha1"
	furikolisters "github.com/furiko-io/furiko/pkg/generated/listers/execution/v1alpha1"
	"github.com/furiko-io/furiko/pkg/runtime/controllercontext"
	"github.com/furiko-io/furiko/pkg/runtime/controllercontext/mock"

	"k8s.io/apimachinery/pkg/runtime"
)

// InformerSet is one process's view of the API: one informer per resource.
type InformerSet struct {
	Name                   string
	Jobs, JobConfigs, Pods *Informer
}

// NewInformerSet creates informers for all resources, registers them with the
// API and fills them with the current API content (initial list).
func NewInformerSet(api *API, name string, fresh bool) *InformerSet {
	return newInformerSet(api, name, fresh, false)
}

// newInformerSet with cold=true creates informers that neither watch nor hold anything yet
// (a process that has just started: each informer lists on its own, see Base.ColdStart).
func newInformerSet(api *API, name string, fresh, cold bool) *InformerSet {
	s := &InformerSet{
		Name:       name,
		Jobs:       NewInformer(name+"/"+Jobs, Jobs, fresh),
		JobConfigs: NewInformer(name+"/"+JobConfigs, JobConfigs, fresh),
		Pods:       NewInformer(name+"/"+Pods, Pods, fresh),
	}
	for _, inf := range s.All() {
		if cold {
			continue
		}
		api.Watch(inf)
		inf.SyncFrom(api.List(inf.Resource))
	}
	return s
}

// All returns the informers in canonical order.
func (s *InformerSet) All() []*Informer { return []*Informer{s.JobConfigs, s.Jobs, s.Pods} }

// ByResource returns the informer of a resource.
func (s *InformerSet) ByResource(r string) *Informer {
	switch r {
	case Jobs:
		return s.Jobs
	case JobConfigs:
		return s.JobConfigs
	case Pods:
		return s.Pods
	}
	return nil
}

// PendingTotal is the number of undelivered events over all resources.
func (s *InformerSet) PendingTotal() int {
	n := 0
	for _, i := range s.All() {
		n += i.Pending()
	}
	return n
}

// ---- furiko informer factory ----

type furikoFactory struct {
	furikoinformers.SharedInformerFactory
	set *InformerSet
}

func (f *furikoFactory) Start(<-chan struct{})           {}
func (f *furikoFactory) Execution() furikoexec.Interface { return furikoGroup{f.set} }

type furikoGroup struct{ set *InformerSet }

func (g furikoGroup) V1alpha1() furikoexecv1.Interface { return furikoVersion{g.set} }

type furikoVersion struct{ set *InformerSet }

func (v furikoVersion) Jobs() furikoexecv1.JobInformer { return jobInformer{v.set.Jobs} }
func (v furikoVersion) JobConfigs() furikoexecv1.JobConfigInformer {
	return jobConfigInformer{v.set.JobConfigs}
}

type jobInformer struct{ inf *Informer }

func (j jobInformer) Informer() cache.SharedIndexInformer { return j.inf }
func (j jobInformer) Lister() furikolisters.JobLister {
	return furikolisters.NewJobLister(j.inf.GetIndexer())
}

type jobConfigInformer struct{ inf *Informer }

func (j jobConfigInformer) Informer() cache.SharedIndexInformer { return j.inf }
func (j jobConfigInformer) Lister() furikolisters.JobConfigLister {
	return furikolisters.NewJobConfigLister(j.inf.GetIndexer())
}

// ---- kubernetes informer factory ----

type k8sFactory struct {
	k8sinformers.SharedInformerFactory
	set *InformerSet
}

func (f *k8sFactory) Start(<-chan struct{})   {}
func (f *k8sFactory) Core() k8score.Interface { return k8sCore{f.SharedInformerFactory.Core(), f.set} }

type k8sCore struct {
	k8score.Interface
	set *InformerSet
}

func (c k8sCore) V1() k8scorev1.Interface { return k8sCoreV1{c.Interface.V1(), c.set} }

type k8sCoreV1 struct {
	k8scorev1.Interface
	set *InformerSet
}

func (c k8sCoreV1) Pods() k8scorev1.PodInformer { return podInformer{c.set.Pods} }

type podInformer struct{ inf *Informer }

func (p podInformer) Informer() cache.SharedIndexInformer { return p.inf }
func (p podInformer) Lister() corelisters.PodLister {
	return corelisters.NewPodLister(p.inf.GetIndexer())
}

// ---- controller context ----

type informers struct {
	k8s    *k8sFactory
	furiko *furikoFactory
}

func (i *informers) Start(context.Context) error                    { return nil }
func (i *informers) Kubernetes() k8sinformers.SharedInformerFactory { return i.k8s }
func (i *informers) Furiko() furikoinformers.SharedInformerFactory  { return i.furiko }

// Context is a controllercontext.Context whose informers are simulated and
// whose clientsets talk to the simulated API.
type Context struct {
	*mock.Context
	informers *informers
	Set       *InformerSet
	// StoresOverride, if set, replaces Stores() (preemption-point wrapper).
	StoresOverride controllercontext.Stores
}

var _ controllercontext.Context = (*Context)(nil)

func (c *Context) Informers() controllercontext.Informers { return c.informers }

func (c *Context) Stores() controllercontext.Stores {
	if c.StoresOverride != nil {
		return c.StoresOverride
	}
	return c.Context.Stores()
}

// NewContext builds a context for one simulated process attached to api.
func NewContext(api *API, name string, fresh bool, cfgs map[configv1alpha1.ConfigName]runtime.Object) *Context {
	return newContext(api, name, fresh, false, cfgs)
}

// NewColdContext is NewContext with informers that have not listed yet.
func NewColdContext(api *API, name string, cfgs map[configv1alpha1.ConfigName]runtime.Object) *Context {
	return newContext(api, name, false, true, cfgs)
}

func newContext(api *API, name string, fresh, cold bool, cfgs map[configv1alpha1.ConfigName]runtime.Object) *Context {
	mc := mock.NewContext()
	api.InstallReactors(mc.MockClientsets().KubernetesMock(), mc.MockClientsets().FurikoMock())
	if cfgs != nil {
		mc.MockConfigs().SetConfigs(cfgs)
	}
	if err := mc.MockConfigs().Start(context.Background()); err != nil {
		panic(err)
	}
	set := newInformerSet(api, name, fresh, cold)
	return &Context{
		Context: mc,
		Set:     set,
		informers: &informers{
			k8s:    &k8sFactory{SharedInformerFactory: mc.Informers().Kubernetes(), set: set},
			furiko: &furikoFactory{SharedInformerFactory: mc.Informers().Furiko(), set: set},
		},
	}
}

// NewClock returns a fake clock at Epoch.
func NewClock() *fakeclock.FakeClock { return fakeclock.NewFakeClock(Epoch) }
