package sim

import (
	"sort"
	"time"

	"k8s.io/client-go/util/workqueue"
	fakeclock "k8s.io/utils/clock/testing"
)

// Queue is a deterministic workqueue.RateLimitingInterface. The explorer
// chooses which ready key Get returns; delayed keys become ready when the
// simulated clock reaches their due time.
type Queue struct {
	Name  string
	clock *fakeclock.FakeClock

	ready      map[string]bool
	processing map[string]bool
	dirty      map[string]bool // re-added while processing
	delayed    map[string]time.Time
	requeues   map[string]int
	next       string

	// statistics
	Adds, RateLimited, AddAfters, Gets int
	// Arm log of the current step: key -> due, for armed-timer oracles.
	shutdown bool
}

var _ workqueue.RateLimitingInterface = (*Queue)(nil)

// NewQueue returns an empty queue.
func NewQueue(name string, clock *fakeclock.FakeClock) *Queue {
	return &Queue{
		Name: name, clock: clock,
		ready: map[string]bool{}, processing: map[string]bool{}, dirty: map[string]bool{},
		delayed: map[string]time.Time{}, requeues: map[string]int{},
	}
}

func (q *Queue) Add(item interface{}) {
	key := item.(string)
	q.Adds++
	if q.processing[key] {
		q.dirty[key] = true
		return
	}
	q.ready[key] = true
}

func (q *Queue) Len() int { return len(q.ready) }

// Choose selects the key returned by the next Get.
func (q *Queue) Choose(key string) { q.next = key }

func (q *Queue) Get() (interface{}, bool) {
	if q.shutdown {
		return nil, true
	}
	key := q.next
	if key == "" || !q.ready[key] {
		panic("sim.Queue.Get: no chosen ready key in " + q.Name + " (" + key + ")")
	}
	q.next = ""
	q.Gets++
	delete(q.ready, key)
	q.processing[key] = true
	return key, false
}

func (q *Queue) Done(item interface{}) {
	key := item.(string)
	delete(q.processing, key)
	if q.dirty[key] {
		delete(q.dirty, key)
		q.ready[key] = true
	}
}

func (q *Queue) ShutDown()          { q.shutdown = true }
func (q *Queue) ShutDownWithDrain() { q.shutdown = true }
func (q *Queue) ShuttingDown() bool { return q.shutdown }

// AddAfter recovers the absolute deadline the caller intended (callers compute
// d with time.Until against the real clock; the simulated epoch is in the real
// future) and never fires earlier than one simulated second from now when the
// caller clamped the duration to its 1s minimum or the deadline already passed.
func (q *Queue) AddAfter(item interface{}, d time.Duration) {
	key := item.(string)
	q.AddAfters++
	now := q.clock.Now()
	var due time.Time
	switch {
	case d <= 0:
		q.Add(item)
		return
	case d <= time.Second:
		due = now.Add(d)
	default:
		// d was computed as deadline - realNow a moment ago; simulated deadlines are whole seconds and the
		// real clock only moves forward, so truncating (with a millisecond of slack) recovers the deadline
		// even if this process was descheduled for most of a second in between (loaded machine).
		due = time.Now().Add(d).Add(time.Millisecond).Truncate(time.Second)
		if !due.After(now) {
			due = now.Add(time.Second) // a deadline that is not in the future: next tick
		}
	}
	if old, ok := q.delayed[key]; ok && !due.Before(old) {
		return
	}
	q.delayed[key] = due
}

// AddRateLimited is modelled as an immediate re-add: the back-off is below the
// time resolution of the model and the explorer already orders ready keys
// arbitrarily against every other transition.
func (q *Queue) AddRateLimited(item interface{}) {
	key := item.(string)
	q.RateLimited++
	q.requeues[key]++
	q.Add(item)
}

func (q *Queue) Forget(item interface{}) { delete(q.requeues, item.(string)) }

func (q *Queue) NumRequeues(item interface{}) int { return q.requeues[item.(string)] }

// Promote moves every delayed key whose due time has been reached to ready.
func (q *Queue) Promote() {
	now := q.clock.Now()
	for k, due := range q.delayed {
		if !due.After(now) {
			delete(q.delayed, k)
			q.Add(k)
		}
	}
}

// Ready returns the ready keys, sorted.
func (q *Queue) Ready() []string {
	out := make([]string, 0, len(q.ready))
	for k := range q.ready {
		out = append(out, k)
	}
	sort.Strings(out)
	return out
}

// Delayed returns a copy of the delayed keys and their due times.
func (q *Queue) Delayed() map[string]time.Time {
	out := make(map[string]time.Time, len(q.delayed))
	for k, v := range q.delayed {
		out[k] = v
	}
	return out
}

// NextDue returns the earliest due time among delayed keys.
func (q *Queue) NextDue() (time.Time, bool) {
	var min time.Time
	for _, due := range q.delayed {
		if min.IsZero() || due.Before(min) {
			min = due
		}
	}
	return min, !min.IsZero()
}

// QueueSnapshot captures the queue content.
type QueueSnapshot struct {
	ready    []string
	delayed  map[string]time.Time
	requeues map[string]int
}

// Snapshot captures the queue (only valid between steps: nothing is processing).
func (q *Queue) Snapshot() *QueueSnapshot {
	s := &QueueSnapshot{ready: q.Ready(), delayed: q.Delayed(), requeues: map[string]int{}}
	for k, v := range q.requeues {
		s.requeues[k] = v
	}
	return s
}

// Restore resets the queue to a snapshot.
func (q *Queue) Restore(s *QueueSnapshot) {
	q.ready = map[string]bool{}
	for _, k := range s.ready {
		q.ready[k] = true
	}
	q.processing = map[string]bool{}
	q.dirty = map[string]bool{}
	q.delayed = map[string]time.Time{}
	for k, v := range s.delayed {
		q.delayed[k] = v
	}
	q.requeues = map[string]int{}
	for k, v := range s.requeues {
		q.requeues[k] = v
	}
	q.next = ""
}
