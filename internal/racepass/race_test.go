//go:build verif
// +build verif

// Package racepass is the separate, free-running pass that backs the
// explorer's atomicity assumption. The explorer serialises every controller
// step and only switches at hooked points (queue items, informer deliveries,
// store operations, API calls); that is sufficient provided no two goroutines
// of the real process touch shared memory without synchronisation. Under the
// explorer's cooperative hand-offs the race detector is blind, so the same
// bodies - the four real controllers, the active-job store, the admission
// mutators and the configuration manager - are run here with real goroutines,
// real work queues and real informers (client-go fakes) under `go test -race`.
// It samples schedules and decides no property by itself; a report means a
// scheduling point the explorer does not know about.
package racepass

import (
	"context"
	"fmt"
	"sync"
	"sync/atomic"
	"testing"
	"time"

	corev1 "k8s.io/api/core/v1"
	"k8s.io/apimachinery/pkg/api/meta"
	metav1 "k8s.io/apimachinery/pkg/apis/meta/v1"
	"k8s.io/apimachinery/pkg/runtime"
	"k8s.io/apimachinery/pkg/types"
	ktesting "k8s.io/client-go/testing"
	"k8s.io/utils/pointer"

	configv1alpha1 "github.com/furiko-io/furiko/apis/config/v1alpha1"
	execution "github.com/furiko-io/furiko/apis/execution/v1alpha1"
	"github.com/furiko-io/furiko/pkg/execution/controllers/croncontroller"
	"github.com/furiko-io/furiko/pkg/execution/controllers/jobconfigcontroller"
	"github.com/furiko-io/furiko/pkg/execution/controllers/jobcontroller"
	"github.com/furiko-io/furiko/pkg/execution/controllers/jobqueuecontroller"
	"github.com/furiko-io/furiko/pkg/execution/mutation"
	"github.com/furiko-io/furiko/pkg/execution/stores/activejobstore"
	"github.com/furiko-io/furiko/pkg/runtime/configloader"
	"github.com/furiko-io/furiko/pkg/runtime/controllercontext"
	"github.com/furiko-io/furiko/pkg/runtime/controllercontext/mock"
	"github.com/furiko-io/furiko/pkg/runtime/controllermanager"
)

const ns = "default"

type runnable interface {
	Run(ctx context.Context) error
	Shutdown(ctx context.Context)
}

func jobConfig(name string, policy execution.ConcurrencyPolicy, maxConc int64, cron string, par int64) *execution.JobConfig {
	jc := &execution.JobConfig{
		ObjectMeta: metav1.ObjectMeta{Namespace: ns, Name: name, UID: types.UID("uid-" + name)},
		Spec: execution.JobConfigSpec{
			Concurrency: execution.ConcurrencySpec{Policy: policy, MaxConcurrency: &maxConc},
			Template: execution.JobTemplateSpec{Spec: execution.JobTemplate{
				MaxAttempts: pointer.Int64(2),
				TaskTemplate: execution.TaskTemplate{Pod: &execution.PodTemplateSpec{Spec: corev1.PodSpec{
					Containers: []corev1.Container{{Name: "c", Image: "busybox"}},
				}}},
			}},
		},
	}
	if par > 0 {
		jc.Spec.Template.Spec.Parallelism = &execution.ParallelismSpec{WithCount: &par, CompletionStrategy: execution.AllSuccessful}
	}
	if cron != "" {
		jc.Spec.Schedule = &execution.ScheduleSpec{Cron: &execution.CronSchedule{Expression: cron}}
	}
	return jc
}

// wrapped replaces the mock's configuration source (an in-memory test double
// that is not meant for concurrent use) by the real manager over the real
// ConfigMap loader, fed through the fake API like everything else.
type wrapped struct {
	*mock.Context
	cfgs controllercontext.Configs
}

func (w *wrapped) Configs() controllercontext.Configs { return w.cfgs }

func configMap(i int) *corev1.ConfigMap {
	return &corev1.ConfigMap{
		ObjectMeta: metav1.ObjectMeta{Namespace: "furiko-system", Name: "execution-dynamic-config"},
		Data: map[string]string{
			string(configv1alpha1.JobExecutionConfigName):  fmt.Sprintf("defaultTTLSecondsAfterFinished: %d\ndefaultPendingTimeoutSeconds: %d\n", 1+i%3, 600+i%2),
			string(configv1alpha1.CronExecutionConfigName): fmt.Sprintf("maxMissedSchedules: %d\n", 3+i%2),
		},
	}
}

func TestFreeRunning(t *testing.T) {
	inner := mock.NewContext()
	inner.MockStores().RegisterFromFactoriesOrDie(activejobstore.NewFactory())
	mgr := configloader.NewConfigManager()
	mgr.AddConfigLoaders(configloader.NewDefaultsLoader(),
		configloader.NewConfigMapLoader(inner.MockClientsets().KubernetesMock(), "furiko-system", "execution-dynamic-config"))
	c := &wrapped{Context: inner, cfgs: controllercontext.NewContextConfigs(mgr)}
	mut := mutation.NewMutator(c)
	fc := c.MockClientsets().FurikoMock()
	kc := c.MockClientsets().KubernetesMock()

	// Admission: the real mutators run inside the API call, concurrently with the controllers.
	fc.PrependReactor("create", "jobs", func(a ktesting.Action) (bool, runtime.Object, error) {
		rj := a.(ktesting.CreateAction).GetObject().(*execution.Job)
		mut.MutateJob(rj)
		mut.MutateCreateJob(rj)
		return false, nil, nil
	})
	fc.PrependReactor("create", "jobconfigs", func(a ktesting.Action) (bool, runtime.Object, error) {
		rjc := a.(ktesting.CreateAction).GetObject().(*execution.JobConfig)
		mut.MutateJobConfig(rjc)
		mut.MutateCreateJobConfig(rjc)
		return false, nil, nil
	})

	// What the API server would stamp on every new object.
	var seq int64
	stamp := func(a ktesting.Action) (bool, runtime.Object, error) {
		if m, err := meta.Accessor(a.(ktesting.CreateAction).GetObject()); err == nil {
			if ts := m.GetCreationTimestamp(); ts.IsZero() {
				m.SetCreationTimestamp(metav1.Now())
			}
			if m.GetUID() == "" {
				m.SetUID(types.UID(fmt.Sprintf("uid-%d", atomic.AddInt64(&seq, 1))))
			}
		}
		return false, nil, nil
	}
	fc.PrependReactor("create", "*", stamp)
	kc.PrependReactor("create", "*", stamp)

	ctx, cancel := context.WithCancel(context.Background())
	defer cancel()
	conc := &configv1alpha1.Concurrency{Workers: 4}
	var ctrls []runnable
	add := func(r runnable, err error) {
		if err != nil {
			t.Fatal(err)
		}
		ctrls = append(ctrls, r)
	}
	{
		r, err := croncontroller.NewController(c, conc)
		add(r, err)
	}
	{
		r, err := jobqueuecontroller.NewController(c, conc)
		add(r, err)
	}
	{
		r, err := jobcontroller.NewController(c, conc)
		add(r, err)
	}
	{
		r, err := jobconfigcontroller.NewController(c, conc)
		add(r, err)
	}
	if _, err := kc.CoreV1().ConfigMaps("furiko-system").Create(ctx, configMap(0), metav1.CreateOptions{}); err != nil {
		t.Fatal(err)
	}
	if err := mgr.Start(ctx); err != nil {
		t.Fatal(err)
	}
	if err := inner.Start(ctx); err != nil {
		t.Fatal(err)
	}
	store, err := c.Stores().ActiveJobStore()
	if err != nil {
		t.Fatal(err)
	}
	if err := controllermanager.RecoverStores(ctx, []controllermanager.Store{store.(controllermanager.Store)}); err != nil {
		t.Fatal(err)
	}
	for _, r := range ctrls {
		r := r
		go func() { _ = r.Run(ctx) }()
	}

	jcs := []*execution.JobConfig{
		jobConfig("forbid-cron", execution.ConcurrencyPolicyForbid, 1, "* * * * * * *", 0),
		jobConfig("enqueue-2", execution.ConcurrencyPolicyEnqueue, 2, "", 0),
		jobConfig("allow-par3", execution.ConcurrencyPolicyAllow, 1, "*/2 * * * * * *", 3),
	}
	for _, jc := range jcs {
		if _, err := fc.ExecutionV1alpha1().JobConfigs(ns).Create(ctx, jc, metav1.CreateOptions{}); err != nil {
			t.Fatal(err)
		}
	}

	deadline := time.Now().Add(6 * time.Second)
	var wg sync.WaitGroup
	spawn := func(f func(i int)) {
		wg.Add(1)
		go func() {
			defer wg.Done()
			for i := 0; time.Now().Before(deadline); i++ {
				f(i)
			}
		}()
	}

	// users: ad-hoc Jobs from every JobConfig (two submitters), kills, deletions, schedule edits
	for u := 0; u < 2; u++ {
		u := u
		spawn(func(i int) {
			jc := jcs[i%len(jcs)]
			rj := &execution.Job{
				ObjectMeta: metav1.ObjectMeta{Namespace: ns, Name: fmt.Sprintf("adhoc-%d-%d", u, i)},
				Spec:       execution.JobSpec{ConfigName: jc.Name},
			}
			_, _ = fc.ExecutionV1alpha1().Jobs(ns).Create(ctx, rj, metav1.CreateOptions{})
			time.Sleep(15 * time.Millisecond)
		})
	}
	spawn(func(i int) {
		list, _ := fc.ExecutionV1alpha1().Jobs(ns).List(ctx, metav1.ListOptions{})
		for n, rj := range list.Items {
			switch {
			case (n+i)%7 == 0 && rj.Spec.KillTimestamp == nil:
				rj := rj.DeepCopy()
				now := metav1.Now()
				rj.Spec.KillTimestamp = &now
				_, _ = fc.ExecutionV1alpha1().Jobs(ns).Update(ctx, rj, metav1.UpdateOptions{})
			case (n+i)%11 == 0 && rj.Status.Phase.IsTerminal():
				_ = fc.ExecutionV1alpha1().Jobs(ns).Delete(ctx, rj.Name, metav1.DeleteOptions{})
			}
		}
		time.Sleep(40 * time.Millisecond)
	})
	spawn(func(i int) {
		rjc, err := fc.ExecutionV1alpha1().JobConfigs(ns).Get(ctx, "allow-par3", metav1.GetOptions{})
		if err == nil {
			rjc = rjc.DeepCopy()
			rjc.Spec.Schedule.Cron.Expression = []string{"*/2 * * * * * *", "*/3 * * * * * *", "* * * * * * *"}[i%3]
			rjc.Spec.Schedule.Disabled = i%5 == 4
			now := metav1.Now()
			rjc.Spec.Schedule.LastUpdated = &now
			_, _ = fc.ExecutionV1alpha1().JobConfigs(ns).Update(ctx, rjc, metav1.UpdateOptions{})
		}
		time.Sleep(150 * time.Millisecond)
	})
	// operator: dynamic configuration changes while everything reads it
	spawn(func(i int) {
		_, _ = kc.CoreV1().ConfigMaps("furiko-system").Update(ctx, configMap(i), metav1.UpdateOptions{})
		time.Sleep(100 * time.Millisecond)
	})
	// kubelet: pods start, then succeed or fail
	spawn(func(i int) {
		list, _ := kc.CoreV1().Pods(ns).List(ctx, metav1.ListOptions{})
		for n, pod := range list.Items {
			pod := pod.DeepCopy()
			switch pod.Status.Phase {
			case "", corev1.PodPending:
				pod.Status.Phase = corev1.PodRunning
				now := metav1.Now()
				pod.Status.StartTime = &now
			case corev1.PodRunning:
				pod.Status.Phase = corev1.PodSucceeded
				if (n+i)%4 == 0 {
					pod.Status.Phase = corev1.PodFailed
				}
			default:
				continue
			}
			_, _ = kc.CoreV1().Pods(ns).UpdateStatus(ctx, pod, metav1.UpdateOptions{})
		}
		time.Sleep(25 * time.Millisecond)
	})
	wg.Wait()

	jobs, _ := fc.ExecutionV1alpha1().Jobs(ns).List(ctx, metav1.ListOptions{})
	pods, _ := kc.CoreV1().Pods(ns).List(ctx, metav1.ListOptions{})
	started, finished := 0, 0
	for _, rj := range jobs.Items {
		if rj.Status.StartTime != nil {
			started++
		}
		if rj.Status.Phase.IsTerminal() {
			finished++
		}
	}
	t.Logf("RACEPASS jobs=%d started=%d finished=%d pods=%d", len(jobs.Items), started, finished, len(pods.Items))
	if started == 0 || finished == 0 || len(pods.Items) == 0 {
		t.Errorf("RACEPASS-VACUOUS: the workload did not exercise the controllers")
	}
	cancel()
	sctx, scancel := context.WithTimeout(context.Background(), 3*time.Second)
	defer scancel()
	for _, r := range ctrls {
		r.Shutdown(sctx)
	}
}
