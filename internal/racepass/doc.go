// Package racepass holds the free-running race-detector pass (see race_test.go, build tag verif).
package racepass
