// Package pure holds the exhaustive input enumerations (no interleaving
// dimension): every input of a stated finite alphabet is run through the real
// furiko functions and compared with a boring reference model.
package pure

import (
	"fmt"
	"os"
	"runtime/debug"
	"sort"
	"strings"
	"time"

	"verif/internal/mc"
)

// Spec identifies one enumeration unit.
type Spec struct {
	ID       string `json:"id"`
	Property string `json:"property"`
	Thorough bool   `json:"thorough"`
}

// Ctx is handed to an enumeration: it collects counts, samples and violations.
type Ctx struct {
	Spec     Spec
	Deadline time.Time
	res      *mc.Result
	seen     map[string]bool
	stopped  bool
}

// Eval counts one evaluated case.
func (c *Ctx) Eval() { c.res.Evaluations++ }

// Nontrivial counts a distinct non-trivial case identified by key.
func (c *Ctx) Nontrivial(key string) {
	if !c.seen[key] {
		c.seen[key] = true
		c.res.DistinctNontrivial++
	}
}

// SetStates reports distinct states / transitions for enumerations that walk a state space.
func (c *Ctx) SetStates(states int) {
	c.res.States = states
	c.res.Transitions = c.res.Evaluations
	c.res.Replays = c.res.Evaluations
}

// Distinct returns the number of distinct non-trivial cases counted so far.
func (c *Ctx) Distinct() int { return c.res.DistinctNontrivial }

// Count increments a named counter.
func (c *Ctx) Count(name string) { c.res.Counters[name]++ }

// AddCount adds n to a named counter.
func (c *Ctx) AddCount(name string, n int) { c.res.Counters[name] += n }

// Sample records an input sample (only the first few are kept).
func (c *Ctx) Sample(v interface{}) {
	if len(c.res.InputSamples) < 4 {
		c.res.InputSamples = append(c.res.InputSamples, v)
	}
}

// Violate records a violation; the input description goes into Detail so that
// input-keyed known findings can match it. Only the first violation of each
// (monitor, class) is kept, where class is the first feature.
func (c *Ctx) Violate(monitor, detail string, features ...string) {
	sort.Strings(features)
	id := monitor + "|" + fmt.Sprint(features)
	if c.seen["viol|"+id] {
		return
	}
	c.seen["viol|"+id] = true
	c.res.Found = append(c.res.Found, mc.Found{
		Violation: mc.Violation{Property: c.Spec.Property, Monitor: monitor, Detail: detail, Features: features},
		Scenario:  c.Spec.ID,
	})
}

// Expired reports whether the wall-clock budget is used up; it marks the
// result as not exhaustive.
func (c *Ctx) Expired() bool {
	if c.stopped {
		return true
	}
	if !c.Deadline.IsZero() && time.Now().After(c.Deadline) {
		c.stopped = true
		c.res.Exhaustive = false
		c.res.CapHit = "deadline"
		return true
	}
	return false
}

type runner func(c *Ctx)

type entry struct {
	spec func(thorough bool) []Spec
	run  map[string]runner
}

var table = map[string][]struct {
	id  string
	run runner
}{}

// Register adds an enumeration unit for a property.
func Register(prop, id string, run runner) {
	table[prop] = append(table[prop], struct {
		id  string
		run runner
	}{id, run})
}

// SpecsFor lists the enumeration units of a property.
func SpecsFor(prop, tier string) []Spec {
	var out []Spec
	for _, e := range table[prop] {
		out = append(out, Spec{ID: prop + "/" + e.id, Property: prop, Thorough: tier == "thorough"})
	}
	return out
}

// Run executes one enumeration unit.
func Run(s Spec, deadline time.Time) mc.Result {
	start := time.Now()
	res := mc.Result{Scenario: s.ID, Exhaustive: true, Counters: map[string]int{}, Outcomes: map[string]int{}, ActionKinds: map[string]int{}}
	c := &Ctx{Spec: s, Deadline: deadline, res: &res, seen: map[string]bool{}}
	for _, e := range table[s.Property] {
		if s.Property+"/"+e.id == s.ID {
			func() {
				defer func() {
					if r := recover(); r != nil {
						// A panic inside the code under test is a finding, not a tool error.
						stack := debug.Stack()
						if trimStack(stack) == "" {
							// no frame of furiko on the stack: the harness itself is broken, that is no verdict
							os.Stderr.Write(stack)
							fmt.Fprintf(os.Stderr, "harness panic: %v\n", r)
							os.Exit(3)
						}
						c.Violate("panic", fmt.Sprintf("the code under test panicked: %v\n%s", r, trimStack(stack)))
						res.Exhaustive = false
						res.CapHit = "panic"
					}
				}()
				e.run(c)
			}()
			res.WallS = time.Since(start).Seconds()
			return res
		}
	}
	panic("unknown pure unit " + s.ID)
}

func trimStack(b []byte) string {
	if os.Getenv("VERIF_DEBUG_STACK") != "" {
		os.Stderr.Write(b)
	}
	lines := strings.Split(string(b), "\n")
	var keep []string
	for _, l := range lines {
		if strings.Contains(l, "furiko-io/furiko") || strings.Contains(l, "/repo/") {
			keep = append(keep, strings.TrimSpace(l))
		}
		if len(keep) >= 8 {
			break
		}
	}
	return strings.Join(keep, " | ")
}
