// Package ref holds the boring reference models the real code is compared with.
package ref

import (
	"strconv"
	"strings"
	"time"
)

// CronSpec is an independently parsed plain cron expression (numbers, ranges,
// steps, lists, '*'): 5 fields (min hour dom mon dow), 6 (+year) or 7 (sec ... year).
type CronSpec struct {
	sec, min, hour, dom, mon, dow map[int]bool
	year                          map[int]bool
	domStar, dowStar              bool
}

func parseField(f string, lo, hi int) (map[int]bool, bool, bool) {
	out := map[int]bool{}
	star := false
	for _, part := range strings.Split(f, ",") {
		step := 1
		rng := part
		if i := strings.IndexByte(part, '/'); i >= 0 {
			n, err := strconv.Atoi(part[i+1:])
			if err != nil || n <= 0 {
				return nil, false, false
			}
			step = n
			rng = part[:i]
		}
		a, b := lo, hi
		switch {
		case rng == "*":
			if step == 1 {
				star = true
			}
		case strings.Contains(rng, "-"):
			xs := strings.SplitN(rng, "-", 2)
			x, err1 := strconv.Atoi(xs[0])
			y, err2 := strconv.Atoi(xs[1])
			if err1 != nil || err2 != nil {
				return nil, false, false
			}
			a, b = x, y
		default:
			x, err := strconv.Atoi(rng)
			if err != nil {
				return nil, false, false
			}
			a = x
			if step == 1 {
				b = x
			}
		}
		if a < lo || b > hi || a > b {
			return nil, false, false
		}
		for v := a; v <= b; v += step {
			out[v] = true
		}
	}
	return out, star, true
}

// ParsePlain parses a plain expression; ok=false if it uses anything else
// (H, L, W, #, ?, names, macros), which the reference does not model.
func ParsePlain(expr string) (*CronSpec, bool) {
	fields := strings.Fields(expr)
	if len(fields) < 5 || len(fields) > 7 {
		return nil, false
	}
	c := &CronSpec{sec: map[int]bool{0: true}}
	i := 0
	ok := true
	if len(fields) == 7 {
		if c.sec, _, ok = parseField(fields[0], 0, 59); !ok {
			return nil, false
		}
		i = 1
	}
	if c.min, _, ok = parseField(fields[i], 0, 59); !ok {
		return nil, false
	}
	if c.hour, _, ok = parseField(fields[i+1], 0, 23); !ok {
		return nil, false
	}
	if c.dom, c.domStar, ok = parseField(fields[i+2], 1, 31); !ok {
		return nil, false
	}
	if c.mon, _, ok = parseField(fields[i+3], 1, 12); !ok {
		return nil, false
	}
	if c.dow, c.dowStar, ok = parseField(fields[i+4], 0, 7); !ok {
		return nil, false
	}
	if c.dow[7] {
		c.dow[0] = true
	}
	if i+5 < len(fields) {
		if c.year, _, ok = parseField(fields[i+5], 1970, 2099); !ok {
			return nil, false
		}
	}
	return c, true
}

// Matches reports whether the wall-clock reading of t (in t's location, whole
// second) matches the expression.
func (c *CronSpec) Matches(t time.Time) bool {
	if t.Nanosecond() != 0 {
		return false
	}
	if !c.sec[t.Second()] || !c.min[t.Minute()] || !c.hour[t.Hour()] || !c.mon[int(t.Month())] {
		return false
	}
	if c.year != nil && !c.year[t.Year()] {
		return false
	}
	domOK, dowOK := c.dom[t.Day()], c.dow[int(t.Weekday())]
	switch {
	case c.domStar && c.dowStar:
		return true
	case c.domStar:
		return dowOK
	case c.dowStar:
		return domOK
	default:
		return domOK || dowOK
	}
}
